/-
  Model `CasRow` (driver token `cas`) of the optimistic locking of one stage row and its task rows:
  `SqliteWorkflowStore.store_stage` (auto-commit), `AtomicTransaction.store_stage` inside
  `store.transaction()` (commit / rollback by the context manager), both with and without
  `expected_phase`, and `helpers.upsert_task`.

  What the SQL does (mirrored here):
  * stage:  `UPDATE stage_executions SET status, context, outputs, start_time, end_time, version = version + 1
             WHERE id = :id AND version = :version [AND status = :expected_phase]`;
             `rowcount == 0` → ConcurrencyError; otherwise the in-memory `stage.version += 1`.
  * each in-memory task, in order:  `UPDATE task_executions SET …, version = version + 1 WHERE id = :id AND version = :version`;
             `rowcount == 0` → `INSERT … version 0`; IntegrityError (row exists, other version) → ConcurrencyError;
             a successful UPDATE bumps the in-memory `task.version`, an INSERT does not.
  * transactional variant: any ConcurrencyError rolls the whole transaction back and restores the in-memory versions
    (`rollback_versions`).
  * auto-commit variant (as repaired, F33): `conn.rollback()` before every ConcurrencyError — after a missed stage CAS
    (empty transaction) and after a failed `upsert_task` (undoing the stage UPDATE and the task rows written so far) —
    and the in-memory versions are restored.  So both variants are all-or-nothing; they differ only in who commits.

  The stage-level content the UPDATE writes is abstracted to `status` and a `payload` list (context/outputs);
  a modification appends one entry and may set the status.  A client is an in-memory StageExecution object:
  `read` (retrieve_stage) replaces it, `modify` changes it in memory, `write` stores it, `retry` = read again,
  re-apply the not-yet-committed modifications, write.  `bump t` is an outside writer changing task row `t`
  (version + 1) without going through `store_stage`.

  Ghost state: per object `base` (content when read / last committed) and `pend` (modifications since);
  `log` (committed modifications in commit order), `commits` (client, version the write was based on).

  Reads: `read` is the whole read call as one step.  The section "a read call split into its SQL statements" (`SOp`,
  `sstep`, driver request `cas split …`) splits `retrieve_stage` / `retrieve` / `get_*_stages` into the statement
  returning the stage row (version together with status / context / outputs), the statement returning the task rows and
  the return of the call, with arbitrary ops of other clients in between (torn reads).
-/
import Stab.Model.Basic

namespace Stab.CasRow
open Stab

structure TRow where
  tid : Nat
  ver : Nat
  st : Nat
  deriving DecidableEq, Repr

structure Content where
  status : Nat
  payload : List Nat
  deriving DecidableEq, Repr

structure Mod where
  setStatus : Option Nat      -- new stage status, if any
  entry : Nat                 -- appended to the payload
  taskSt : Option (Nat × Nat) -- set the status of in-memory task #k (position) to a value
  addTask : Bool              -- append a fresh task object
  deriving DecidableEq, Repr

/-- a client's in-memory StageExecution -/
structure Obj where
  version : Nat
  cur : Content
  tasks : List TRow
  base : Content
  pend : List Mod
  deriving DecidableEq, Repr

structure Db where
  version : Nat
  content : Content
  tasks : List TRow
  deriving DecidableEq, Repr

structure State where
  db : Db
  objs : List (Nat × Obj) := []
  nextTid : Nat
  log : List Mod := []
  commits : List (Nat × Nat) := []
  deriving Repr

def init (status ntasks : Nat) : State :=
  { db := { version := 0, content := { status, payload := [] },
            tasks := (List.range ntasks).map (fun i => { tid := i, ver := 0, st := 0 }) }
    nextTid := ntasks }

inductive Op where
  | read (c : Nat)
  | modify (c : Nat) (m : Mod)
  | write (c : Nat) (txn : Bool) (phase : Option Nat)
  | retry (c : Nat) (txn : Bool) (phase : Option Nat)
  | bump (tid : Nat)
  deriving DecidableEq, Repr

inductive Out where
  | ok | conflict | noobj
  deriving DecidableEq, Repr

def applyC (c : Content) (m : Mod) : Content :=
  { status := m.setStatus.getD c.status, payload := c.payload ++ [m.entry] }

def getObj (s : State) (c : Nat) : Option Obj := (s.objs.find? (fun p => p.1 == c)).map (·.2)

def setObj (s : State) (c : Nat) (o : Obj) : State :=
  { s with objs := (c, o) :: s.objs.filter (fun p => p.1 != c) }

def setTaskSt : List TRow → Nat → Nat → List TRow
  | [], _, _ => []
  | t :: ts, 0, v => { t with st := v } :: ts
  | t :: ts, k + 1, v => t :: setTaskSt ts k v

/-- the in-memory effect of a modification on the task list -/
def applyT (tasks : List TRow) (nextTid : Nat) (m : Mod) : List TRow :=
  let t1 := match m.taskSt with
    | some (k, v) => setTaskSt tasks k v
    | none => tasks
  if m.addTask then t1 ++ [{ tid := nextTid, ver := 0, st := 1 }] else t1

def readOp (s : State) (c : Nat) : State :=
  setObj s c { version := s.db.version, cur := s.db.content, tasks := s.db.tasks, base := s.db.content, pend := [] }

def modifyOp (s : State) (c : Nat) (m : Mod) : State :=
  match getObj s c with
  | none => s
  | some o =>
    let s' := setObj s c { o with cur := applyC o.cur m, tasks := applyT o.tasks s.nextTid m, pend := o.pend ++ [m] }
    if m.addTask then { s' with nextTid := s.nextTid + 1 } else s'

/-- `upsert_task` on the task table: `none` = ConcurrencyError; otherwise the new table and the new in-memory version -/
def upsert (rows : List TRow) (t : TRow) : Option (List TRow × Nat) :=
  if rows.any (fun r => r.tid == t.tid && r.ver == t.ver) then
    some (rows.map (fun r => if r.tid == t.tid && r.ver == t.ver then { r with ver := r.ver + 1, st := t.st } else r),
          t.ver + 1)
  else if rows.any (fun r => r.tid == t.tid) then none
  else some (rows ++ [{ tid := t.tid, ver := 0, st := t.st }], t.ver)

/-- the loop `for task in stage.tasks: upsert_task(...)`: (table, in-memory tasks so far, completed?) -/
def upsertAll : List TRow → List TRow → List TRow × List TRow × Bool
  | rows, [] => (rows, [], true)
  | rows, t :: ts =>
    match upsert rows t with
    | none => (rows, t :: ts, false)
    | some (rows', v) =>
      let (rows'', mem, okk) := upsertAll rows' ts
      (rows'', { t with ver := v } :: mem, okk)

def phaseOk (s : State) : Option Nat → Bool
  | none => true
  | some p => s.db.content.status == p

def writeOp (s : State) (c : Nat) (txn : Bool) (phase : Option Nat) : State × Out :=
  match getObj s c with
  | none => (s, .noobj)
  | some o =>
    if s.db.version == o.version && phaseOk s phase then
      let (rows, mem, okk) := upsertAll s.db.tasks o.tasks
      if okk then
        ({ (setObj s c { o with version := o.version + 1, tasks := mem, base := o.cur, pend := [] }) with
            db := { version := s.db.version + 1, content := o.cur, tasks := rows }
            log := s.log ++ o.pend
            commits := s.commits ++ [(c, o.version)] }, .ok)
      else (s, .conflict)      -- a task CAS failed: everything is rolled back (both variants), versions restored
    else (s, .conflict)

def reapply (s : State) (c : Nat) : List Mod → State
  | [] => s
  | m :: ms => reapply (modifyOp s c m) c ms

/-- `retry`: read the row again, re-apply the modifications that were not committed, write -/
def retryOp (s : State) (c : Nat) (txn : Bool) (phase : Option Nat) : State × Out :=
  match getObj s c with
  | none => (s, .noobj)
  | some o => writeOp (reapply (readOp s c) c o.pend) c txn phase

def bumpOp (s : State) (t : Nat) : State :=
  { s with db := { s.db with tasks := s.db.tasks.map (fun r => if r.tid == t then { r with ver := r.ver + 1 } else r) } }

def step (s : State) : Op → State × Out
  | .read c => (readOp s c, .ok)
  | .modify c m => (modifyOp s c m, if (getObj s c).isSome then .ok else .noobj)
  | .write c t p => writeOp s c t p
  | .retry c t p => retryOp s c t p
  | .bump t => (bumpOp s t, .ok)

def next (s : State) (op : Op) : State := (step s op).1

def run (s : State) (ops : List Op) : State := ops.foldl next s

def isBump : Op → Bool
  | .bump _ => true
  | _ => false

/-! ### text protocol

  request : `cas <status> <ntasks> <op;op;…>`
  ops     : `read:c` `mod:c:<status|->:<entry>:<k.v|->:<0|1>` `write:c:<p|t>:<phase|->` `retry:c:<p|t>:<phase|->` `bump:t`
  answer  : per op `<out>#<version>.<status>.<payload>#<tasks tid.ver.st>` joined by `|`
  request : `cas upsert <rows tid.ver.st,…> <tid.ver.st>`  →  `ok:<new in-memory version>#<rows>` | `conflict#<rows>`
-/

def optNat? (s : String) : Option (Option Nat) := if s == "-" then some none else (Parse.nat? s).map some

def parseOp (s : String) : Option Op :=
  match s.splitOn ":" with
  | ["read", c] => do pure (.read (← Parse.nat? c))
  | ["mod", c, st, e, ts, a] => do
    let taskSt ← (if ts == "-" then some none else
      match ts.splitOn "." with
      | [k, v] => do pure (some ((← Parse.nat? k), (← Parse.nat? v)))
      | _ => none)
    pure (.modify (← Parse.nat? c) { setStatus := (← optNat? st), entry := (← Parse.nat? e), taskSt, addTask := (← Parse.bool? a) })
  | ["write", c, v, p] => do
    let txn ← (if v == "t" then some true else if v == "p" then some false else none)
    pure (.write (← Parse.nat? c) txn (← optNat? p))
  | ["retry", c, v, p] => do
    let txn ← (if v == "t" then some true else if v == "p" then some false else none)
    pure (.retry (← Parse.nat? c) txn (← optNat? p))
  | ["bump", t] => do pure (.bump (← Parse.nat? t))
  | _ => none

def Out.show : Out → String
  | .ok => "ok" | .conflict => "conflict" | .noobj => "noobj"

def showDb (d : Db) : String :=
  s!"{d.version}.{d.content.status}.{Parse.showNats d.content.payload}#" ++
    (if d.tasks.isEmpty then "-" else Parse.joinWith "," (d.tasks.map (fun t => s!"{t.tid}.{t.ver}.{t.st}")))

def runShow (s : State) : List Op → List String
  | [] => []
  | op :: rest =>
    let (s', o) := step s op
    (o.show ++ "#" ++ showDb s'.db) :: runShow s' rest

def parseTRow (s : String) : Option TRow :=
  match s.splitOn "." with
  | [a, b, c] => do pure { tid := (← Parse.nat? a), ver := (← Parse.nat? b), st := (← Parse.nat? c) }
  | _ => none

def showRows (rows : List TRow) : String :=
  if rows.isEmpty then "-" else Parse.joinWith "," (rows.map (fun t => s!"{t.tid}.{t.ver}.{t.st}"))

/-- `cas upsert <rows> <tid.ver.st>` : `helpers.upsert_task` as a function -/
def driveUpsert (rows t : String) : String :=
  match (if rows == "-" then some [] else Parse.all? parseTRow (rows.splitOn ",")), parseTRow t with
  | some rows, some t =>
    match upsert rows t with
    | none => "conflict#" ++ showRows rows
    | some (rows', v) => s!"ok:{v}#" ++ showRows rows'
  | _, _ => "bad-request"

/-! ### a read call split into its SQL statements (torn reads)

  `retrieve_stage` / `retrieve` / `get_{upstream,downstream,synthetic}_stages` are not one statement: one SELECT
  returns the stage row — `version` TOGETHER WITH status / context / outputs (`row_to_stage` builds the object from
  that single row) — and later SELECTs return the task rows and data of other tables.  Other clients' committed writes
  can fall between any two of these statements.  `SOp` adds the statements of a read to the atomic ops:

  * `readRow c`   the statement returning the stage row: starts the object under construction (`Partial`)
  * `readTasks c` the statement returning the task rows
  * `readVer c`   a LATER statement returning only `version` and overwriting `stage.version`.  The code has no such
                  statement (`Variant.sameStatement`: a no-op); `Variant.rereadVersion` is the hypothetical variant
                  that has one ("hand out the row's current version")
  * `readEnd c`   the call returns: the object replaces the client's object
  * `op o`        any atomic op of any client (the atomic `read` stays available)
-/

/-- which statement the object's `version` comes from -/
inductive Variant where
  | sameStatement   -- the code: the SELECT that returns status / context / outputs
  | rereadVersion   -- NOT the code: a later `SELECT version …` overwrites `stage.version`
  deriving DecidableEq, Repr

/-- the object under construction inside a read call -/
structure Partial where
  version : Nat
  content : Content
  tasks : List TRow
  deriving DecidableEq, Repr

structure SState where
  base : State
  parts : List (Nat × Partial) := []
  deriving Repr

inductive SOp where
  | op (o : Op)
  | readRow (c : Nat)
  | readTasks (c : Nat)
  | readVer (c : Nat)
  | readEnd (c : Nat)
  deriving DecidableEq, Repr

def sinit (status ntasks : Nat) : SState := { base := init status ntasks }

def getPart (s : SState) (c : Nat) : Option Partial := (s.parts.find? (fun q => q.1 == c)).map (·.2)

def setPart (s : SState) (c : Nat) (p : Partial) : SState :=
  { s with parts := (c, p) :: s.parts.filter (fun q => q.1 != c) }

def sstep (v : Variant) (s : SState) : SOp → SState × Out
  | .op o => ({ s with base := (step s.base o).1 }, (step s.base o).2)
  | .readRow c => (setPart s c { version := s.base.db.version, content := s.base.db.content, tasks := [] }, .ok)
  | .readTasks c =>
    match getPart s c with
    | none => (s, .noobj)
    | some p => (setPart s c { p with tasks := s.base.db.tasks }, .ok)
  | .readVer c =>
    match getPart s c with
    | none => (s, .noobj)
    | some p =>
      match v with
      | .sameStatement => (s, .ok)
      | .rereadVersion => (setPart s c { p with version := s.base.db.version }, .ok)
  | .readEnd c =>
    match getPart s c with
    | none => (s, .noobj)
    | some p =>
      ({ base := setObj s.base c { version := p.version, cur := p.content, tasks := p.tasks, base := p.content, pend := [] }
         parts := s.parts.filter (fun q => q.1 != c) }, .ok)

def snext (v : Variant) (s : SState) (op : SOp) : SState := (sstep v s op).1

def srun (v : Variant) (s : SState) (ops : List SOp) : SState := ops.foldl (snext v) s

/-! text protocol of the split reads

  request : `cas split <s|r> <status> <ntasks> <op;op;…>`   (`s` = Variant.sameStatement, `r` = Variant.rereadVersion)
  ops     : the ops of `cas` plus `rrow:c` `rtasks:c` `rver:c` `rend:c`
  answer  : per op `<out>#<db>`; for `rend` the object handed out is shown too: `ok@<version>.<status>.<payload>@<tasks>#<db>`
-/

def parseSOp (s : String) : Option SOp :=
  match s.splitOn ":" with
  | ["rrow", c] => do pure (.readRow (← Parse.nat? c))
  | ["rtasks", c] => do pure (.readTasks (← Parse.nat? c))
  | ["rver", c] => do pure (.readVer (← Parse.nat? c))
  | ["rend", c] => do pure (.readEnd (← Parse.nat? c))
  | _ => (parseOp s).map .op

def showObj (o : Obj) : String :=
  s!"{o.version}.{o.cur.status}.{Parse.showNats o.cur.payload}@" ++ showRows o.tasks

def srunShow (v : Variant) (s : SState) : List SOp → List String
  | [] => []
  | op :: rest =>
    let (s', o) := sstep v s op
    let shown := match op, o with
      | .readEnd c, .ok => "ok@" ++ (match getObj s'.base c with | some ob => showObj ob | none => "?")
      | _, _ => o.show
    (shown ++ "#" ++ showDb s'.base.db) :: srunShow v s' rest

def driveSplit (v st nt ops : String) : String :=
  match (if v == "s" then some Variant.sameStatement else if v == "r" then some Variant.rereadVersion else none),
        Parse.nat? st, Parse.nat? nt, Parse.all? parseSOp (Parse.splitNE ops ";") with
  | some v, some st, some nt, some ops => Parse.joinWith "|" (srunShow v (sinit st nt) ops)
  | _, _, _, _ => "bad-request"

/-! `cas final <status> <ntasks> <op;…>` : the same run, answered with the outcomes of the write / retry ops only and the
    final row with the payload SORTED (which writers' modifications are present, whatever the commit order):
    `<out,out,…>#<version>.<status>.<sorted payload>#<tasks>`.  Used for store-level call logs of engine handlers
    (harness/engine_pairs.py), where only the final durable row is observed. -/

def isWrite : Op → Bool
  | .write _ _ _ => true
  | .retry _ _ _ => true
  | _ => false

def runOuts (s : State) : List Op → List String × State
  | [] => ([], s)
  | op :: rest =>
    let (s', o) := step s op
    let (outs, sf) := runOuts s' rest
    (if isWrite op then o.show :: outs else outs, sf)

def driveFinal (st nt ops : String) : String :=
  match Parse.nat? st, Parse.nat? nt, Parse.all? parseOp (Parse.splitNE ops ";") with
  | some st, some nt, some ops =>
    let (outs, sf) := runOuts (init st nt) ops
    let d := sf.db
    (if outs.isEmpty then "-" else Parse.joinWith "," outs) ++ "#" ++
      showDb { d with content := { d.content with payload := (d.content.payload.toArray.qsort (· < ·)).toList } }
  | _, _, _ => "bad-request"

def drive (rest : String) : String :=
  match rest.splitOn " " with
  | ["upsert", rows, t] => driveUpsert rows t
  | ["split", v, st, nt, ops] => driveSplit v st nt ops
  | ["final", st, nt, ops] => driveFinal st nt ops
  | [st, nt, ops] =>
    match Parse.nat? st, Parse.nat? nt, Parse.all? parseOp (Parse.splitNE ops ";") with
    | some st, some nt, some ops => Parse.joinWith "|" (runShow (init st nt) ops)
    | _, _, _ => "bad-request"
  | _ => "bad-request"

end Stab.CasRow
