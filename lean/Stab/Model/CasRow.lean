/- Model `CasRow` (driver token `cas`) — stub, to be filled in. -/
namespace Stab.CasRow

/-- driver entry: the rest of the request line after the model token -/
def drive (_rest : String) : String := "unimplemented"

end Stab.CasRow
