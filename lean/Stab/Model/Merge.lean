/- Model `Merge` (driver token `merge`) — stub, to be filled in. -/
namespace Stab.Merge

/-- driver entry: the rest of the request line after the model token -/
def drive (_rest : String) : String := "unimplemented"

end Stab.Merge
