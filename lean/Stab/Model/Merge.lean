/-
  Model of the data flow into a starting stage (C16):

  * `persistence/sqlite/queries.py :: get_merged_ancestor_outputs`  — ancestors by BFS over
    `requisite_stage_ref_ids`, a Kahn pass over Python `set`s (so the relative order of unrelated
    ancestors is whatever the set iteration gives: the model takes the order actually used as an
    explicit parameter and only requires it to be a linear extension), then a left-to-right merge:
    list/list = append the items not yet present, everything else = overwrite;
  * `reducers.py` — every built-in reducer and `apply_output_reducers`;
  * `handlers/start_stage/planner.py :: _plan_stage` — ancestors, then reducers over the DIRECT
    upstream branch outputs, then the stage's own context (keys named by a reducer are skipped);
  * the jump re-arm (`handlers/jump_to_stage/reset.py :: reset_stage_for_retry`) as far as the
    stage context is concerned, in two variants: `legacy` (the code before the F17 repair: the planned
    context simply stays) and `fixed` (the planner records which keys were hydrated, the re-arm
    drops / restores them).

  JSON values are restricted to: atoms `None | int | str`, lists of atoms, dicts str -> atom.
  (No floats, no bools, no nesting; Python's `==` on these atoms is structural equality.)
  A dict is an association list in insertion order; lookups take the first entry of a key.
-/
import Stab.Model.Basic

namespace Stab.Merge

inductive Atom where
  | none
  | int (i : Int)
  | str (s : String)
  deriving DecidableEq, Repr, Inhabited

inductive Value where
  | atom (a : Atom)
  | list (l : List Atom)
  | dict (d : List (String × Atom))
  deriving DecidableEq, Repr, Inhabited

/-- `isinstance(v, list)` -/
def Value.isList : Value → Bool
  | .list _ => true
  | _ => false

abbrev Dict (α : Type) := List (String × α)
abbrev Outs := Dict Value

/-- `d.get(k)` (first entry) -/
def get? {α} : Dict α → String → Option α
  | [], _ => none
  | (k', v) :: m, k => if k' = k then some v else get? m k

/-- `d[k] = v` (an existing key keeps its position) -/
def set {α} : Dict α → String → α → Dict α
  | [], k, v => [(k, v)]
  | (k', v') :: m, k, v => if k' = k then (k, v) :: m else (k', v') :: set m k v

def hasKey {α} (d : Dict α) (k : String) : Bool := (get? d k).isSome

/-- `d.pop(k, None)` (all entries of the key) -/
def erase {α} (d : Dict α) (k : String) : Dict α := d.filter (fun e => e.1 ≠ k)

/-- `for item in new: if item not in existing: existing.append(item)` -/
def appendNew (e : List Atom) : List Atom → List Atom
  | [] => e
  | x :: xs => appendNew (if x ∈ e then e else e ++ [x]) xs

/-- one assignment of the merge loops: list onto list accumulates, anything else overwrites -/
def combine (old : Option Value) (v : Value) : Value :=
  match old, v with
  | some (.list e), .list n => .list (appendNew e n)
  | _, _ => v

/-- `for key, value in outputs.items(): ...` of `get_merged_ancestor_outputs` / `_plan_stage` -/
def mergeOuts (acc : Outs) (outs : Outs) : Outs :=
  outs.foldl (fun m e => set m e.1 (combine (get? m e.1) e.2)) acc

/-- the merge loop over `sorted_ancestors` -/
def mergeFrom (O : Nat → Outs) (acc : Outs) (order : List Nat) : Outs :=
  order.foldl (fun m a => mergeOuts m (O a)) acc

/-- `get_merged_ancestor_outputs`, given the order the Kahn pass produced -/
def mergeOrder (O : Nat → Outs) (order : List Nat) : Outs := mergeFrom O [] order

/-! ### reducers (`reducers.py`) -/

inductive RErr where
  | unknown        -- `ValueError("Unknown output reducer ...")`
  | type           -- `TypeError`
  | value          -- `ValueError` (max/min of an empty sequence)
  | unsupported    -- outside the modelled value space (a dict inside a list, comparing lists/dicts)
  deriving DecidableEq, Repr

def RErr.name : RErr → String
  | .unknown => "ValueError" | .type => "TypeError" | .value => "ValueError" | .unsupported => "unsupported"

def Value.isNone : Value → Bool
  | .atom .none => true
  | _ => false
def Value.isDict : Value → Bool
  | .dict _ => true
  | _ => false
def Value.isAtom : Value → Bool
  | .atom _ => true
  | _ => false
def Value.isInt : Value → Bool
  | .atom (.int _) => true
  | _ => false
def Value.isStr : Value → Bool
  | .atom (.str _) => true
  | _ => false
def Value.int? : Value → Option Int
  | .atom (.int i) => some i
  | _ => none
def Value.str? : Value → Option String
  | .atom (.str s) => some s
  | _ => none

/-- what a value contributes to `_collect`: a list is extended, anything else appended -/
def collectItems : Value → List Atom
  | .list l => l
  | .atom a => [a]
  | .dict _ => []

/-- `_collect` (also registered as `append`) -/
def rCollect (vs : List Value) : Except RErr Value :=
  if vs.any Value.isDict then .error .unsupported else .ok (.list (vs.flatMap collectItems))

/-- what a value contributes to `_extend`: like `_collect` but `None` is dropped -/
def extendItems : Value → List Atom
  | .list l => l
  | .atom .none => []
  | .atom a => [a]
  | .dict _ => []

def rExtend (vs : List Value) : Except RErr Value :=
  if vs.any Value.isDict then .error .unsupported else .ok (.list (vs.flatMap extendItems))

/-- `_sum`: `total = 0; total = total + v` for every `v is not None` -/
def rSum (vs : List Value) : Except RErr Value :=
  if vs.all (fun v => v.isNone || v.isInt) then .ok (.atom (.int ((vs.filterMap Value.int?).foldr (· + ·) 0)))
  else .error .type

def optFold {α} (f : α → α → α) : List α → Option α
  | [] => none
  | x :: xs => match optFold f xs with
    | none => some x
    | some y => some (f x y)

def smax (a b : String) : String := if a < b then b else a
def smin (a b : String) : String := if b < a then b else a

/-- comparing at least two non-None values: ints among themselves, strs among themselves; a mix of int and
    str raises `TypeError` at the first comparison across the types -/
def extBody (fi : Int → Int → Int) (fs : String → String → String) (xs : List Value) : Except RErr Value :=
  if xs.all Value.isInt then
    match optFold fi (xs.filterMap Value.int?) with
    | some m => .ok (.atom (.int m))
    | none => .error .value
  else if xs.all Value.isStr then
    match optFold fs (xs.filterMap Value.str?) with
    | some m => .ok (.atom (.str m))
    | none => .error .value
  else if xs.all Value.isAtom then .error .type
  else .error .unsupported

/-- `max(v for v in values if v is not None)` / `min(...)` -/
def rExtremum (fi : Int → Int → Int) (fs : String → String → String) (vs : List Value) : Except RErr Value :=
  match vs.filter (fun v => !v.isNone) with
  | [] => .error .value
  | [x] => .ok x
  | xs => extBody fi fs xs

def rMax := rExtremum max smax
def rMin := rExtremum min smin

/-- `out.update(v)` -/
def update {α} (acc : Dict α) (d : Dict α) : Dict α := d.foldl (fun a e => set a e.1 e.2) acc

/-- one step of `_merge`: `if isinstance(v, dict): out.update(v)` -/
def mergeStep (acc : Dict Atom) : Value → Dict Atom
  | .dict d => update acc d
  | _ => acc

/-- `_merge`: shallow-merge the dict values, ignore everything else -/
def rMergeDict (vs : List Value) : Dict Atom := vs.foldl mergeStep []

def rMerge (vs : List Value) : Except RErr Value := .ok (.dict (rMergeDict vs))

/-- `values[0] if values else None` -/
def rFirst (vs : List Value) : Except RErr Value := .ok (vs.head?.getD (.atom .none))
/-- `values[-1] if values else None` -/
def rLast (vs : List Value) : Except RErr Value := .ok (vs.getLast?.getD (.atom .none))

/-- `_BUILTIN_REDUCERS` -/
def builtin : String → Option (List Value → Except RErr Value)
  | "collect" => some rCollect
  | "append" => some rCollect
  | "extend" => some rExtend
  | "sum" => some rSum
  | "max" => some rMax
  | "min" => some rMin
  | "merge" => some rMerge
  | "first" => some rFirst
  | "last" => some rLast
  | _ => none

def builtinNames : List String := ["collect", "append", "extend", "sum", "max", "min", "merge", "first", "last"]

/-- `[outputs[key] for outputs in branch_outputs if key in outputs]` -/
def branchValues (branches : List Outs) (k : String) : List Value := branches.filterMap (fun o => get? o k)

/-- the loop of `apply_output_reducers` over `reducers.items()`, `res` = `result` so far -/
def applyFrom (branches : List Outs) : Outs → Dict String → Except RErr Outs
  | res, [] => .ok res
  | res, e :: rest =>
    match builtin e.2 with
    | none => .error .unknown
    | some r =>
      if (branchValues branches e.1).isEmpty then applyFrom branches res rest
      else match r (branchValues branches e.1) with
        | .ok v => applyFrom branches (set res e.1 v) rest
        | .error x => .error x

/-- `apply_output_reducers` -/
def applyReducers (reducers : Dict String) (branches : List Outs) : Except RErr Outs :=
  applyFrom branches [] reducers

/-! ### `_plan_stage` -/

/-- the loop over `stage.context.items()`: reducer keys are skipped, the rest merges like an ancestor -/
def planCore (rk : List String) (anc : Outs) (own : Outs) : Outs :=
  mergeOuts anc (own.filter (fun e => !rk.contains e.1))

/-- `_plan_stage` up to `stage.context = merged`: `anc` = merged ancestor outputs, `branches` = the
    outputs of the direct upstream stages in the order `get_upstream_stages` returns them -/
def planMerge (reducers : Dict String) (anc : Outs) (branches : List Outs) (own : Outs) : Except RErr Outs :=
  if reducers.isEmpty then .ok (planCore [] anc own)
  else match applyReducers reducers branches with
    | .ok red => .ok (planCore (reducers.map (·.1)) (update anc red) own)
    | .error x => .error x

/-! ### the stage context across jump-loop iterations (F17)

`ctx` is the stage's stored context without the engine's reserved `_…` keys; the two reserved keys
the repaired planner writes are separate fields. -/

structure SCtx where
  ctx : Outs
  hydrated : List String := []              -- context["_hydrated_keys"]
  ownLists : Dict (List Atom) := []         -- context["_hydrated_own_lists"]
  deriving Repr, DecidableEq

inductive Variant where
  | legacy | fixed
  deriving DecidableEq, Repr

/-- own list values that are about to be merged onto an ancestor list (first plan only) -/
def ownListsOf (rk : List String) (anc : Outs) (old : Dict (List Atom)) (own : Outs) : Dict (List Atom) :=
  own.foldl (fun acc e =>
    match e.2, get? anc e.1 with
    | .list l, some (.list _) => if rk.contains e.1 || hasKey acc e.1 then acc else acc ++ [(e.1, l)]
    | _, _ => acc) old

/-- `_plan_stage`: what is stored as the stage's context (and handed to its tasks).
    `anc` already contains the reducer results (`ancestor_outputs.update(apply_output_reducers(..))`). -/
def planCtx (var : Variant) (rk : List String) (anc : Outs) (s : SCtx) : SCtx :=
  match var with
  | .legacy => { s with ctx := planCore rk anc s.ctx }
  | .fixed =>
    { ctx := planCore rk anc s.ctx
      hydrated := s.hydrated ++ ((anc.map (·.1)).filter (fun k => !hasKey s.ctx k && !s.hydrated.contains k))
      ownLists := ownListsOf rk anc s.ownLists s.ctx }

/-- `reset_stage_for_retry`, context part -/
def rearm (var : Variant) (s : SCtx) : SCtx :=
  match var with
  | .legacy => s
  | .fixed =>
    let dropped := s.hydrated.foldl (fun c k => erase c k) s.ctx
    -- `for key, own_list in own_lists.items(): ctx[key] = own_list` (a dict: keys are unique, order immaterial)
    { ctx := s.ownLists.foldr (fun e c => set c e.1 (.list e.2)) dropped }

/-- what the stage's task is handed in each iteration of a jump loop; `iters` = per iteration the
    merged ancestor outputs (reducers applied) at the moment the stage is planned -/
def loopSeen (var : Variant) (rk : List String) : SCtx → List Outs → List Outs
  | _, [] => []
  | s, anc :: rest =>
    let p := planCtx var rk anc s
    p.ctx :: loopSeen var rk (rearm var p) rest

/-! ### ancestors and linear extensions

Stage refs are `Nat`; `R a` = requisites of `a`.  The executable functions assume the graph is
topologically numbered (`∀ b ∈ R a, b < a`), which the harness guarantees by construction. -/

/-- ancestors of `s`, ascending: candidates `n-1 … 0`, a candidate is an ancestor iff it is a requisite
    of `s` or of an ancestor already found (all of which are larger). -/
def ancDown (R : Nat → List Nat) (s : Nat) : Nat → List Nat → List Nat
  | 0, acc => acc
  | n + 1, acc =>
    if (s :: acc).any (fun c => (R c).contains n) then ancDown R s n (n :: acc) else ancDown R s n acc

def ancestors (R : Nat → List Nat) (s : Nat) : List Nat := ancDown R s s []

/-- every requisite of every member occurs earlier in the list -/
def reqsBefore (R : Nat → List Nat) : List Nat → List Nat → Bool
  | _, [] => true
  | seen, a :: rest => (R a).all (fun b => seen.contains b) && reqsBefore R (seen ++ [a]) rest

/-- `order` is a linear extension of the ancestor sub-DAG of `s` (decidable form, no search):
    no repetition, `s` not in it, contains `R s`, closed under `R` with requisites first, and every
    member is needed by `s` or by another member. -/
def isLinExt (R : Nat → List Nat) (s : Nat) (order : List Nat) : Bool :=
  order.Nodup && !order.contains s && (R s).all (fun b => order.contains b)
  && reqsBefore R [] order
  && order.all (fun a => (s :: order).any (fun c => (R c).contains a))

def insertAll {α} (x : α) : List α → List (List α)
  | [] => [[x]]
  | y :: ys => (x :: y :: ys) :: (insertAll x ys).map (y :: ·)

def perms {α} : List α → List (List α)
  | [] => [[]]
  | x :: xs => (perms xs).flatMap (insertAll x)

def linExts (R : Nat → List Nat) (s : Nat) : List (List Nat) :=
  (perms (ancestors R s)).filter (isLinExt R s)

/-! ### executable graph carrier and text protocol -/

structure Node where
  ref : Nat
  reqs : List Nat
  outs : Outs
  deriving Repr

abbrev Graph := List Node

def Graph.R (g : Graph) (a : Nat) : List Nat :=
  match g.find? (·.ref == a) with
  | some n => n.reqs
  | none => []

def Graph.O (g : Graph) (a : Nat) : Outs :=
  match g.find? (·.ref == a) with
  | some n => n.outs
  | none => []

def Graph.topoNumbered (g : Graph) : Bool := g.all (fun n => n.reqs.all (· < n.ref))
def Graph.known (g : Graph) : Bool := g.all (fun n => n.reqs.all (fun b => g.any (·.ref == b)))
def Graph.distinct (g : Graph) : Bool := (g.map (·.ref)).Nodup
def Graph.dictOuts (g : Graph) : Bool := g.all (fun n => (n.outs.map (·.1)).Nodup)

/-! value syntax: `n` None, `i<int>`, `s<chars>`, `L[:atom]*` list, `D[:key:atom]*` dict -/

def parseAtom (t : String) : Option Atom :=
  if t == "n" then some .none
  else if t.startsWith "i" then (Parse.int? (t.drop 1).toString).map .int
  else if t.startsWith "s" then some (.str (t.drop 1).toString)
  else none

def parsePairs : List String → Option (List (String × Atom))
  | [] => some []
  | k :: a :: rest => do
    let x ← parseAtom a
    let r ← parsePairs rest
    pure ((k, x) :: r)
  | _ => none

def parseValue (t : String) : Option Value :=
  match t.splitOn ":" with
  | "L" :: items => (Parse.all? parseAtom items).map .list
  | "D" :: kvs => (parsePairs kvs).map .dict
  | [a] => (parseAtom a).map .atom
  | _ => none

def parseEntry (t : String) : Option (String × Value) :=
  match t.splitOn "=" with
  | [k, v] => (parseValue v).map (fun x => (k, x))
  | _ => none

/-- `k=v,k=v` or `-` -/
def parseOuts (t : String) : Option Outs :=
  if t == "-" then some [] else Parse.all? parseEntry (t.splitOn ",")

def parseNats (t : String) : Option (List Nat) :=
  if t == "-" then some [] else Parse.all? Parse.nat? (t.splitOn ".")

/-- `ref;reqs;outs` -/
def parseNode (t : String) : Option Node :=
  match t.splitOn ";" with
  | [r, q, o] => do pure { ref := (← Parse.nat? r), reqs := (← parseNats q), outs := (← parseOuts o) }
  | _ => none

def parseGraph (t : String) : Option Graph :=
  if t == "-" then some [] else Parse.all? parseNode (t.splitOn "|")

def showAtom : Atom → String
  | .none => "n"
  | .int i => s!"i{i}"
  | .str s => "s" ++ s

def insSorted {α} (e : String × α) : List (String × α) → List (String × α)
  | [] => [e]
  | x :: xs => if e.1 < x.1 then e :: x :: xs else x :: insSorted e xs

def sortKeys {α} (d : List (String × α)) : List (String × α) := d.foldr insSorted []

def showValue : Value → String
  | .atom a => showAtom a
  | .list l => ":".intercalate ("L" :: l.map showAtom)
  | .dict d => ":".intercalate ("D" :: (sortKeys d).flatMap (fun e => [e.1, showAtom e.2]))

/-- canonical: keys sorted (a Python dict compares without order) -/
def showOuts (o : Outs) : String :=
  if o.isEmpty then "-" else ",".intercalate ((sortKeys o).map (fun e => e.1 ++ "=" ++ showValue e.2))

def showRes : Except RErr Value → String
  | .ok v => showValue v
  | .error e => "error:" ++ e.name

def showResOuts : Except RErr Outs → String
  | .ok o => showOuts o
  | .error e => "error:" ++ e.name

def showNatsDot (l : List Nat) : String := if l.isEmpty then "-" else ".".intercalate (l.map toString)

/-- `k=name,k=name` reducers in dict order, `-` for none -/
def parseReducers (t : String) : Option (Dict String) :=
  if t == "-" then some [] else
  Parse.all? (fun e => match e.splitOn "=" with
    | [k, n] => some (k, n)
    | _ => none) (t.splitOn ",")

def parseKeys (t : String) : Option (List String) :=
  if t == "-" then some [] else some (t.splitOn ",")

def graphOk (g : Graph) : Bool := g.topoNumbered && g.known && g.distinct && g.dictOuts

/-- requests:
  * `anc <s> <graph>`                          ancestors, ascending
  * `linext <s> <order> <graph>`               is `order` a linear extension of the ancestors of `s`
  * `merged <s> <order> <graph>`               `get_merged_ancestor_outputs` for that order
  * `admits <s> <result> <graph>`              is `result` the merge of SOME linear extension
  * `count <s> <graph>`                        number of linear extensions
  * `reduce <name> <v1|v2|...>`                one reducer on a list of values (`-` = empty)
  * `plan <reducers> <anc> <b1|b2|..> <own>`   `_plan_stage` merge
  * `stageplan <s> <order> <bo> <reducers> <own> <graph>`  `_plan_stage` of stage `s`: ancestors merged in
       `order`, reducers over the direct upstream stages in the order `bo`, then `own`
  * `loop <legacy|fixed> <rk> <own> <anc1|anc2|..>`  contexts seen over jump-loop iterations
-/
def drive (rest : String) : String :=
  match rest.splitOn " " with
  | ["anc", s, g] =>
    match Parse.nat? s, parseGraph g with
    | some s, some g => if graphOk g then showNatsDot (ancestors g.R s) else "bad-graph"
    | _, _ => "bad-request"
  | ["linext", s, o, g] =>
    match Parse.nat? s, parseNats o, parseGraph g with
    | some s, some o, some g => if graphOk g then toString (isLinExt g.R s o) else "bad-graph"
    | _, _, _ => "bad-request"
  | ["merged", s, o, g] =>
    match Parse.nat? s, parseNats o, parseGraph g with
    | some s, some o, some g =>
      if !graphOk g then "bad-graph"
      else if !g.any (·.ref == s) then "-"
      else if isLinExt g.R s o then showOuts (mergeOrder g.O o) else "not-linext"
    | _, _, _ => "bad-request"
  | ["admits", s, r, g] =>
    match Parse.nat? s, parseOuts r, parseGraph g with
    | some s, some _, some g =>
      if !graphOk g then "bad-graph"
      else toString ((linExts g.R s).any (fun o => showOuts (mergeOrder g.O o) == r))
    | _, _, _ => "bad-request"
  | ["count", s, g] =>
    match Parse.nat? s, parseGraph g with
    | some s, some g => if graphOk g then toString (linExts g.R s).length else "bad-graph"
    | _, _ => "bad-request"
  | ["reduce", name, vs] =>
    match (if vs == "-" then some [] else Parse.all? parseValue (vs.splitOn "|")) with
    | some vs =>
      match builtin name with
      | some r => showRes (r vs)
      | none => "error:" ++ RErr.unknown.name
    | none => "bad-request"
  | ["plan", rs, anc, bs, own] =>
    match parseReducers rs, parseOuts anc,
          (if bs == "-" then some [] else Parse.all? parseOuts (bs.splitOn "|")), parseOuts own with
    | some rs, some anc, some bs, some own => showResOuts (planMerge rs anc bs own)
    | _, _, _, _ => "bad-request"
  | ["stageplan", s, o, bo, rs, own, g] =>
    match Parse.nat? s, parseNats o, parseNats bo, parseReducers rs, parseOuts own, parseGraph g with
    | some s, some o, some bo, some rs, some own, some g =>
      if !graphOk g then "bad-graph"
      else if !isLinExt g.R s o then "not-linext"
      else if !(bo.all (fun b => (g.R s).contains b)) then "bad-branches"
      else showResOuts (planMerge rs (mergeOrder g.O o) (bo.map g.O) own)
    | _, _, _, _, _, _ => "bad-request"
  | ["loop", var, rk, own, iters] =>
    match (if var == "legacy" then some Variant.legacy else if var == "fixed" then some Variant.fixed else none),
          parseKeys rk, parseOuts own, Parse.all? parseOuts (iters.splitOn "|") with
    | some var, some rk, some own, some iters =>
      "|".intercalate ((loopSeen var rk { ctx := own } iters).map showOuts)
    | _, _, _, _ => "bad-request"
  | _ => "bad-request"

end Stab.Merge
