/-
  Model of the message codec and of the row codec (C19).

  * `queue/sqlite/serialization.py :: serialize_message` and `persistence/sqlite/transaction.py ::
    AtomicTransaction.push_message` — both are a loop over `message.__dict__`; the model is an interpreter of
    the *shape* of that loop (a list of branch tokens), and the two shapes actually found in the source are
    generated into `Stab.Gen.Schema` on every run;
  * `deserialize_message` + `create_message_from_dict`: conversions keyed by field NAME (`status`,
    `original_status`, `phase`), the popped metadata keys, then `cls(**data)`;
  * the store: an UPDATE changes exactly the columns of its SET list; tasks are read `ORDER BY id`.

  JSON values are abstract: the codec only ever asks whether a value is a string (and which), whether it is
  truthy, and otherwise passes it on unchanged.
-/
import Stab.Model.Basic

namespace Stab.Codec

/-- an abstract JSON value: `null`, a string, or anything else (identified by an opaque token, with its
    Python truthiness) -/
inductive J where
  | null
  | str (s : String)
  | other (truthy : Bool) (id : String)
  deriving DecidableEq, Repr, Inhabited

def J.truthy : J → Bool
  | .null => false
  | .str s => s != ""
  | .other t _ => t

/-- `SyntheticStageOwner` -/
inductive Phase where
  | stageBefore | stageAfter
  deriving DecidableEq, Repr, Inhabited

def Phase.name : Phase → String
  | .stageBefore => "STAGE_BEFORE" | .stageAfter => "STAGE_AFTER"
def Phase.all : List Phase := [.stageBefore, .stageAfter]
def Phase.ofName? (s : String) : Option Phase := Phase.all.find? (fun p => p.name == s)

/-- a Python value held by a message attribute -/
inductive PyVal where
  | json (j : J)                 -- None / str / int / bool / list / dict …
  | status (s : Status)          -- a `WorkflowStatus` member
  | phase (p : Phase)            -- a `SyntheticStageOwner` member
  | time (iso : String)          -- a `datetime` (by its isoformat)
  | enumValue (tag : String)     -- `member.value` of an enum (only produced by a serialiser of the wrong shape)
  deriving DecidableEq, Repr, Inhabited

/-- kind of a dataclass field, from its annotation -/
inductive Kind where
  | plain | status | optStatus | phase | datetime
  deriving DecidableEq, Repr, Inhabited

def Kind.ofName? : String → Option Kind
  | "plain" => some .plain | "status" => some .status | "optStatus" => some .optStatus
  | "phase" => some .phase | "datetime" => some .datetime | _ => none

/-- a value of the right Python type for a field of that kind -/
def conforms : Kind → PyVal → Bool
  | .plain, .json _ => true
  | .status, .status _ => true
  | .optStatus, .status _ => true
  | .optStatus, .json .null => true
  | .phase, .phase _ => true
  | .datetime, .time _ => true
  | _, _ => false

abbrev Fields := List (String × PyVal)      -- `message.__dict__` in order

/-- `key.startswith("_")` -/
def isPrivate (k : String) : Bool :=
  match k.toList with
  | '_' :: _ => true
  | _ => false

/-! ### the serialisers, as an interpreter of the loop shape -/

/-- what the loop puts into `data[key]`; `none` = not JSON-serialisable (json.dumps would raise) -/
def encodeWith (shape : List String) (v : PyVal) : Option J :=
  match v with
  | .json j => if shape.contains "else:id" then some j else none
  | .time iso => if shape.contains "datetime:isoformat" then some (.str iso) else none
  | .status s =>
    if shape.contains "Enum:name" then some (.str s.name)
    else if shape.contains "Enum:value" then some (.other true ("value-of-" ++ s.name)) else none
  | .phase p =>
    if shape.contains "Enum:name" then some (.str p.name)
    else if shape.contains "Enum:value" then some (.str ("value-of-" ++ p.name)) else none
  | .enumValue _ => none

/-- the payload dict (before `json.dumps`); `none` if some value cannot be dumped -/
def serializeWith (shape : List String) : Fields → Option (List (String × J))
  | [] => some []
  | (k, v) :: rest =>
    if shape.contains "skip:_" && isPrivate k then serializeWith shape rest
    else match encodeWith shape v, serializeWith shape rest with
      | some j, some r => some ((k, j) :: r)
      | _, _ => none

/-- the shape both serialisers are expected to have -/
def canonicalShape : List String := ["skip:_", "datetime:isoformat", "Enum:name", "else:id"]

/-! ### `deserialize_message` -/

/-- the three name-keyed conversions; `none` = the enum lookup raises `KeyError` -/
def convert (k : String) (j : J) : Option PyVal :=
  if k = "status" then
    match j with
    | .str n => (Status.ofName? n).map .status
    | _ => some (.json j)
  else if k = "original_status" then
    if j.truthy then
      match j with
      | .str n => (Status.ofName? n).map .status
      | _ => none
    else some (.json j)
  else if k = "phase" then
    match j with
    | .str n => (Phase.ofName? n).map .phase
    | _ => some (.json j)
  else some (.json j)

def convertAll : List (String × J) → Option Fields
  | [] => some []
  | (k, j) :: rest =>
    match convert k j, convertAll rest with
    | some v, some r => some ((k, v) :: r)
    | _, _ => none

def popped : List String := ["message_id", "created_at", "attempts", "max_attempts"]

def lookup {α} (k : String) : List (String × α) → Option α
  | [] => none
  | (k', v) :: rest => if k' = k then some v else lookup k rest

/-- `cls(**data)`: every key must be a field; missing fields take their default -/
def construct (spec : List (String × Kind)) (dflt : String → PyVal) (data : Fields) : Option Fields :=
  if data.all (fun e => spec.any (fun f => f.1 == e.1)) then
    some (spec.map (fun f => (f.1, (lookup f.1 data).getD (dflt f.1))))
  else none

def deserialize (spec : List (String × Kind)) (dflt : String → PyVal) (payload : List (String × J)) : Option Fields :=
  match convertAll payload with
  | none => none
  | some data => construct spec dflt (data.filter (fun e => !popped.contains e.1))

/-- what a round trip is expected to give: every field unchanged except the popped metadata, which the
    constructor re-defaults (the queue then sets `message_id`/`attempts` from the row) -/
def expected (dflt : String → PyVal) (m : Fields) : Fields :=
  m.map (fun e => (e.1, if popped.contains e.1 then dflt e.1 else e.2))

/-- the table-level conditions under which the round trip is the identity -/
def registryOk (spec : List (String × Kind)) : Bool :=
  (spec.map (·.1)).Nodup
  && spec.all (fun f => !isPrivate f.1)
  && spec.all (fun f => match f.2 with
      | .status => f.1 == "status"
      | .optStatus => f.1 == "original_status"
      | .phase => f.1 == "phase"
      | .datetime => popped.contains f.1
      | .plain => f.1 != "status" && f.1 != "original_status" && f.1 != "phase")

/-- a generated field list (kinds as strings) as a spec -/
def specOf : List (String × String) → Option (List (String × Kind))
  | [] => some []
  | (n, k) :: rest =>
    match Kind.ofName? k, specOf rest with
    | some kd, some r => some ((n, kd) :: r)
    | _, _ => none

/-- the message `m` is an instance of the dataclass `spec` -/
def instanceOf (spec : List (String × Kind)) (m : Fields) : Bool :=
  m.map (·.1) == spec.map (·.1) && (m.zip spec).all (fun p => conforms p.2.2 p.1.2)

/-! ### rows -/

abbrev Row := List (String × String)     -- column -> stored text

/-- `UPDATE t SET c = new[c] for c in set` on one row -/
def applyUpdate (set : List String) (new old : Row) : Row :=
  old.map (fun e => if set.contains e.1 then (e.1, (lookup e.1 new).getD e.2) else e)

/-- `SELECT … ORDER BY id ASC` over rows `(id, payload)` -/
def readTasks (rows : List (Nat × String)) : List (Nat × String) :=
  rows.mergeSort (fun a b => a.1 ≤ b.1)

/-! ### text protocol

`codec roundtrip <shape> <spec> <fields>`  — serialise with the given loop shape, then deserialise:
   shape  = tokens joined by `+`  (e.g. `skip:_+datetime:isoformat+Enum:name+else:id`)
   spec   = `name:kind,…`
   fields = `name=value,…` with value `N` (null) | `S<hex>` (str) | `O0<id>`/`O1<id>` (other, falsy/truthy) |
            `ES<NAME>` (status) | `EP<NAME>` (phase) | `T<id>` (datetime)
   output = `name=value,…` (popped metadata shown as `<default>`) | `unserializable` | `undeserializable`
-/

def parseVal (t : String) : Option PyVal :=
  if t == "N" then some (.json .null)
  else if t.startsWith "ES" then (Status.ofName? (t.drop 2).toString).map .status
  else if t.startsWith "EP" then (Phase.ofName? (t.drop 2).toString).map .phase
  else if t.startsWith "S" then some (.json (.str (t.drop 1).toString))
  else if t.startsWith "O0" then some (.json (.other false (t.drop 2).toString))
  else if t.startsWith "O1" then some (.json (.other true (t.drop 2).toString))
  else if t.startsWith "T" then some (.time (t.drop 1).toString)
  else none

def showVal : PyVal → String
  | .json .null => "N"
  | .json (.str s) => "S" ++ s
  | .json (.other t i) => (if t then "O1" else "O0") ++ i
  | .status s => "ES" ++ s.name
  | .phase p => "EP" ++ p.name
  | .time i => "T" ++ i
  | .enumValue t => "EV" ++ t

def parseField (t : String) : Option (String × PyVal) :=
  match t.splitOn "=" with
  | [k, v] => (parseVal v).map (fun x => (k, x))
  | _ => none

def parseSpecEntry (t : String) : Option (String × Kind) :=
  match t.splitOn ":" with
  | [k, kd] => (Kind.ofName? kd).map (fun x => (k, x))
  | _ => none

def defaultMark (k : String) : PyVal := .enumValue ("default-" ++ k)

def showFields (m : Fields) : String :=
  ",".intercalate (m.map (fun e =>
    e.1 ++ "=" ++ (if e.2 == defaultMark e.1 then "<default>" else showVal e.2)))

def drive (rest : String) : String :=
  match rest.splitOn " " with
  | ["roundtrip", shape, spec, fields] =>
    match Parse.all? parseSpecEntry (spec.splitOn ","), Parse.all? parseField (fields.splitOn ",") with
    | some spec, some m =>
      if !instanceOf spec m then "not-an-instance"
      else match serializeWith (shape.splitOn "+") m with
        | none => "unserializable"
        | some p => match deserialize spec defaultMark p with
          | none => "undeserializable"
          | some r => showFields r
    | _, _ => "bad-request"
  | ["update", set, new, old] =>
    let parseRow (t : String) : Option Row :=
      if t == "-" then some [] else Parse.all? (fun e => match e.splitOn "=" with
        | [k, v] => some (k, v)
        | _ => none) (t.splitOn ",")
    match parseRow new, parseRow old with
    | some n, some o => ",".intercalate ((applyUpdate (set.splitOn ",") n o).map (fun e => e.1 ++ "=" ++ e.2))
    | _, _ => "bad-request"
  | _ => "bad-request"

end Stab.Codec
