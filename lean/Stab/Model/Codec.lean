/- Model `Codec` (driver token `codec`) — stub, to be filled in. -/
namespace Stab.Codec

/-- driver entry: the rest of the request line after the model token -/
def drive (_rest : String) : String := "unimplemented"

end Stab.Codec
