/- Model `Claims` (driver token `claims`) — stub, to be filled in. -/
namespace Stab.Claims

/-- driver entry: the rest of the request line after the model token -/
def drive (_rest : String) : String := "unimplemented"

end Stab.Claims
