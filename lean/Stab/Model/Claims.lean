/-
  Model `Claims` (driver token `claims`): mutual exclusion (`mutex_key`) and deferred choice (`deferred_choice_group`)
  of sibling stages of ONE execution, as implemented by `StartStageHandler._start_if_ready`
  (+ `conditions.py` fast paths), `AtomicTransaction.acquire_claim`, `_cancel_deferred_choice_siblings`,
  `CancelStageHandler`, the jump re-arm (`reset_stage_for_retry`) and the retention sweep
  `cleanup_completed_stage_claims`.

  * a stage = status + optional mutex key + optional choice group;
  * `claims` = the `stage_claims` table of this execution: claim key ↦ owner stage;
  * the read-then-check fast paths (`_is_mutex_blocked`, `_is_deferred_choice_claimed`) are separate, possibly STALE
    reads: `peekM s` / `peekC s` record what the handler saw, `claim s` later acts on the recorded values and then runs
    the claim transaction (acquire mutex claim with steal-if-owner-terminal, acquire choice claim without steal, CAS
    NOT_STARTED → RUNNING; all or nothing);  `tryStart s` = the three in one atomic step (no stale read);
  * `finish`, `cancel` (CancelStage), `park`/`unpark` (SUSPENDED / PAUSED), `reset` (jump re-arm: status back to
    NOT_STARTED, the claim row is NOT touched — that is what the code does), `endWorkflow`
    (`CompleteWorkflowHandler._determine_final_status`: the execution becomes terminal as soon as all stages are
    continuable OR any stage is TERMINAL / CANCELED, even while other stages are live), `sweep`
    (iff the EXECUTION is terminal: deletes every claim whose owner stage is not RUNNING / SUSPENDED / PAUSED — the
    owner-live guard of fix 9adf23a, finding F31), `cancelLosers` (deliver the pending CancelStages).

  `fixSteal = true` (the default, the code since fix b2e8739, finding F30): a mutex claim whose owner is NOT_STARTED again
  (re-armed by a jump) can be taken over.  `fixSteal = false` is the behaviour before that fix, kept only for the
  clearly labelled legacy witness in Props/C11.lean.
-/
import Stab.Model.Basic

namespace Stab.Claims
open Stab

inductive Key where
  | mutex (k : Nat)
  | choice (g : Nat)
  deriving DecidableEq, Repr

structure Stage where
  status : Status := .notStarted
  mutex : Option Nat := none
  group : Option Nat := none
  deriving DecidableEq, Repr

/-- RUNNING / SUSPENDED / PAUSED -/
def live (s : Status) : Bool := s == .running || s == .suspended || s == .paused

structure St where
  fixSteal : Bool := true
  stages : List Stage
  claims : List (Key × Nat) := []
  wfTerminal : Bool := false
  peekM : List (Nat × Bool) := []      -- recorded result of `_is_mutex_blocked` per stage (latest first)
  peekC : List (Nat × Bool) := []      -- recorded result of `_is_deferred_choice_claimed`
  cancelQ : List Nat := []             -- pending CancelStage messages
  started : List Nat := []             -- ghost: every committed NOT_STARTED → RUNNING, newest first
  deriving Repr

def getC (cs : List (Key × Nat)) (k : Key) : Option Nat :=
  match cs with
  | [] => none
  | (k', v) :: rest => if k' = k then some v else getC rest k

def setC (cs : List (Key × Nat)) (k : Key) (v : Nat) : List (Key × Nat) :=
  match cs with
  | [] => [(k, v)]
  | (k', v') :: rest => if k' = k then (k, v) :: rest else (k', v') :: setC rest k v

def getP (ps : List (Nat × Bool)) (i : Nat) : Option Bool :=
  match ps with
  | [] => none
  | (j, b) :: rest => if j = i then some b else getP rest i

def statusOf (s : St) (i : Nat) : Option Status := (s.stages[i]?).map (·.status)

def setStatus (s : St) (i : Nat) (st : Status) : St :=
  match s.stages[i]? with
  | none => s
  | some g => { s with stages := s.stages.set i { g with status := st } }

/-- `_is_mutex_blocked`: another stage with the same key is RUNNING -/
def mutexBlocked (s : St) (i : Nat) : Bool :=
  match s.stages[i]? with
  | none => false
  | some g =>
    match g.mutex with
    | none => false
    | some k => (List.range s.stages.length).any fun j =>
        j != i && (match s.stages[j]? with | some h => h.mutex == some k && h.status == .running | none => false)

/-- `_is_deferred_choice_claimed`: a sibling of the group is no longer NOT_STARTED -/
def choiceClaimed (s : St) (i : Nat) : Bool :=
  match s.stages[i]? with
  | none => false
  | some g =>
    match g.group with
    | none => false
    | some c => (List.range s.stages.length).any fun j =>
        j != i && (match s.stages[j]? with | some h => h.group == some c && h.status != .notStarted | none => false)

/-- `acquire_claim` — returns the new claim table, or none when the claim is held by somebody else -/
def acquire (s : St) (cs : List (Key × Nat)) (k : Key) (i : Nat) (steal : Bool) : Option (List (Key × Nat)) :=
  match getC cs k with
  | none => some (setC cs k i)
  | some o =>
    if o = i then some cs
    else if steal then
      match statusOf s o with
      | none => some (setC cs k i)                                   -- owner row gone
      | some st => if st.isComplete || (s.fixSteal && st == .notStarted) then some (setC cs k i) else none
    else none

inductive Out where
  | started | requeued | cancelSelf | ignored | ok | noop
  deriving DecidableEq, Repr

def Out.name : Out → String
  | .started => "started" | .requeued => "requeued" | .cancelSelf => "cancelSelf" | .ignored => "ignored"
  | .ok => "ok" | .noop => "noop"

inductive Op where
  | peekM (i : Nat) | peekC (i : Nat) | claim (i : Nat) | tryStart (i : Nat)
  | finish (i : Nat) (st : Status) | cancel (i : Nat) | park (i : Nat) (st : Status) | unpark (i : Nat)
  | reset (i : Nat) | endWorkflow | sweep | cancelLosers
  deriving DecidableEq, Repr

/-- siblings of `i`'s group that are still NOT_STARTED (targets of `_cancel_deferred_choice_siblings`) -/
def losers (s : St) (i : Nat) : List Nat :=
  match s.stages[i]? with
  | none => []
  | some g =>
    match g.group with
    | none => []
    | some c => (List.range s.stages.length).filter fun j =>
        j != i && (match s.stages[j]? with | some h => h.group == some c && h.status == .notStarted | none => false)

/-- `_start_if_ready` from the fast paths on, given what the fast paths saw -/
def claimWith (s : St) (i : Nat) (mb cc : Bool) : St × Out :=
  match s.stages[i]? with
  | none => (s, .ignored)
  | some g =>
    if g.status ≠ .notStarted then (s, .ignored)
    else if mb then (s, .requeued)
    else if g.group.isSome && cc then ({ s with cancelQ := s.cancelQ ++ [i] }, .cancelSelf)
    else
      -- the claim transaction
      let c1 := match g.mutex with
        | none => some s.claims
        | some k => acquire s s.claims (.mutex k) i true
      match c1 with
      | none => (s, .requeued)
      | some cs1 =>
        let c2 := match g.group with
          | none => some cs1
          | some c => acquire s cs1 (.choice c) i false
        match c2 with
        | none => ({ s with cancelQ := s.cancelQ ++ [i] }, .cancelSelf)     -- rolled back, CancelStage(self)
        | some cs2 =>
          let s' := { s with claims := cs2, stages := s.stages.set i { g with status := .running }, started := i :: s.started }
          ({ s' with cancelQ := s'.cancelQ ++ losers s' i }, .started)

/-- `cleanup_completed_stage_claims` keeps a claim whose owner stage is RUNNING / SUSPENDED / PAUSED -/
def ownerLive (s : St) (e : Key × Nat) : Bool :=
  match statusOf s e.2 with
  | some st => live st
  | none => false

/-- `CancelStageHandler`: anything not yet complete becomes CANCELED -/
def cancelOne (s : St) (i : Nat) : St :=
  match statusOf s i with
  | none => s
  | some st => if st.isComplete then s else setStatus s i .canceled

def cancelAll (s : St) : List Nat → St
  | [] => s
  | i :: rest => cancelAll (cancelOne s i) rest

def step (s : St) : Op → St × Out
  | .peekM i => ({ s with peekM := (i, mutexBlocked s i) :: s.peekM }, .ok)
  | .peekC i => ({ s with peekC := (i, choiceClaimed s i) :: s.peekC }, .ok)
  | .claim i =>
    claimWith s i ((getP s.peekM i).getD (mutexBlocked s i)) ((getP s.peekC i).getD (choiceClaimed s i))
  | .tryStart i => claimWith s i (mutexBlocked s i) (choiceClaimed s i)
  | .finish i st =>
    if st.isComplete && statusOf s i == some .running then (setStatus s i st, .ok) else (s, .noop)
  | .cancel i =>
    match statusOf s i with
    | none => (s, .noop)
    | some st => (cancelOne s i, if st.isComplete then .ignored else .ok)
  | .park i st =>
    if (st == .suspended || st == .paused) && statusOf s i == some .running then (setStatus s i st, .ok) else (s, .noop)
  | .unpark i =>
    if statusOf s i == some .suspended || statusOf s i == some .paused then (setStatus s i .running, .ok) else (s, .noop)
  | .reset i => (setStatus s i .notStarted, .ok)
  | .endWorkflow =>
    let sts := s.stages.map (·.status)
    if sts.all Status.isContinuable || sts.contains .terminal || sts.contains .canceled
    then ({ s with wfTerminal := true }, .ok) else (s, .noop)
  | .sweep => if s.wfTerminal then ({ s with claims := s.claims.filter (ownerLive s) }, .ok) else (s, .noop)
  | .cancelLosers => ({ cancelAll s s.cancelQ with cancelQ := [] }, .ok)

def run (s : St) (ops : List Op) : St := ops.foldl (fun acc o => (step acc o).1) s

def runOut (s : St) : List Op → St × List Out
  | [] => (s, [])
  | o :: rest =>
    let r := step s o
    let r2 := runOut r.1 rest
    (r2.1, r.2 :: r2.2)

def init (fixSteal : Bool) (stages : List Stage) : St :=
  { fixSteal := fixSteal, stages := stages.map fun g => { g with status := .notStarted } }

/-! ### driver
`claims fix=<0/1>;<stages: m<k> | g<c> | m<k>g<c> | - ,...>;<ops: PM<i> PC<i> C<i> T<i> F<i>:<STATUS> X<i> U<i>:<STATUS> V<i> R<i> E W K, `,`-separated>`
answer: `<out>|<out>|... ; <status,...> ; <claims: m<k>><owner> g<c>><owner> sorted> ; wf=<0/1> ; q=<pending cancels>` -/

def parseStage (t : String) : Option Stage :=
  if t == "-" then some {} else
  let (mpart, gpart) := match t.splitOn "g" with
    | [m] => (m, "")
    | [m, g] => (m, g)
    | _ => ("?", "?")
  let m? : Option (Option Nat) :=
    if mpart == "" then some none else if mpart.startsWith "m" then (Parse.nat? (mpart.drop 1).toString).map some else none
  let g? : Option (Option Nat) := if gpart == "" then some none else (Parse.nat? gpart).map some
  match m?, g? with
  | some m, some g => some { mutex := m, group := g }
  | _, _ => none

def parseOp (t : String) : Option Op :=
  let num (s : String) : Option Nat := Parse.nat? s
  if t == "E" then some .endWorkflow
  else if t == "W" then some .sweep
  else if t == "K" then some .cancelLosers
  else if t.startsWith "PM" then (num (t.drop 2).toString).map .peekM
  else if t.startsWith "PC" then (num (t.drop 2).toString).map .peekC
  else if t.startsWith "C" then (num (t.drop 1).toString).map .claim
  else if t.startsWith "T" then (num (t.drop 1).toString).map .tryStart
  else if t.startsWith "X" then (num (t.drop 1).toString).map .cancel
  else if t.startsWith "V" then (num (t.drop 1).toString).map .unpark
  else if t.startsWith "R" then (num (t.drop 1).toString).map .reset
  else if t.startsWith "F" then
    match (t.drop 1).toString.splitOn ":" with
    | [i, st] => do pure (.finish (← num i) (← Status.ofName? st))
    | _ => none
  else if t.startsWith "U" then
    match (t.drop 1).toString.splitOn ":" with
    | [i, st] => do pure (.park (← num i) (← Status.ofName? st))
    | _ => none
  else none

def keyName : Key → String
  | .mutex k => s!"m{k}"
  | .choice g => s!"g{g}"

def showSt (s : St) : String :=
  let sts := Parse.joinWith "," (s.stages.map (·.status.name))
  let cl := (s.claims.map fun (k, v) => s!"{keyName k}>{v}")
  let cls := Parse.joinWith "," (cl.toArray.qsort (· < ·)).toList
  s!"{sts} ; {if cls.isEmpty then "-" else cls} ; wf={if s.wfTerminal then 1 else 0} ; q={Parse.showNats s.cancelQ}"

def drive (rest : String) : String :=
  match rest.splitOn ";" with
  | [f, stages, ops] =>
    let fix? := if f == "fix=1" then some true else if f == "fix=0" then some false else none
    match fix?, Parse.all? parseStage (Parse.splitNE stages ","), Parse.all? parseOp (Parse.splitNE ops ",") with
    | some fix, some sts, some os =>
      let r := runOut (init fix sts) os
      s!"{Parse.joinWith "|" (r.2.map Out.name)} ; {showSt r.1}"
    | _, _, _ => "bad-request"
  | _ => "bad-request"

end Stab.Claims
