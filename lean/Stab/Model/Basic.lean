/-
  Shared vocabulary of the models and tiny text-protocol helpers (core Lean only).
-/
import Stab.Model.Status

namespace Stab

/-- `stabilize.models.stage.enums.JoinType` -/
inductive JoinType where
  | and | or | multiMerge | discriminator | nOfM
  deriving DecidableEq, Repr, Inhabited

namespace JoinType
def name : JoinType → String
  | .and => "AND" | .or => "OR" | .multiMerge => "MULTI_MERGE"
  | .discriminator => "DISCRIMINATOR" | .nOfM => "N_OF_M"
def ofName? (s : String) : Option JoinType :=
  [JoinType.and, .or, .multiMerge, .discriminator, .nOfM].find? (fun j => j.name == s)
end JoinType

namespace Parse

/-- split on a single character; `"" ↦ []` (unlike `String.splitOn`, which gives `[""]`) -/
def splitNE (s : String) (sep : String) : List String :=
  if s.isEmpty then [] else s.splitOn sep

def nat? (s : String) : Option Nat := s.toNat?

def int? (s : String) : Option Int := s.toInt?

def bool? : String → Option Bool
  | "1" | "true" | "T" => some true
  | "0" | "false" | "F" => some false
  | _ => none

/-- parse every element or fail -/
def all? {α} (f : String → Option α) : List String → Option (List α)
  | [] => some []
  | x :: xs => do
    let a ← f x
    let as ← all? f xs
    pure (a :: as)

/-- `"1,2,3"` → `[1,2,3]`, `""`/`"-"` → `[]` -/
def natList? (s : String) : Option (List Nat) :=
  if s == "-" then some [] else all? nat? (splitNE s ",")

def joinWith (sep : String) (xs : List String) : String := sep.intercalate xs

def showNats (xs : List Nat) : String :=
  if xs.isEmpty then "-" else joinWith "," (xs.map toString)

end Parse
end Stab
