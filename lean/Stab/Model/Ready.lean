/-
  Model of `stabilize.dag.readiness.evaluate_readiness` (pure function).

  Upstream stages are `(ref, status)` pairs in the order `get_upstream_stages` returns them;
  the context keys the function reads are explicit fields.
-/
import Stab.Model.Basic

namespace Stab.Ready
open Stab

structure Up where
  ref : Nat
  status : Status
  deriving DecidableEq, Repr

/-- what `evaluate_readiness(stage, upstream_stages, jump_bypass)` reads -/
structure In where
  join : JoinType
  threshold : Int                      -- stage.join_threshold
  joinFired : Bool                     -- truthiness of context["_join_fired"]
  activated : Option (List Nat)        -- context["_activated_branches"] (None when absent)
  bypass : Bool
  ups : List Up
  deriving Repr

inductive Phase where
  | ready | notReady | skip
  deriving DecidableEq, Repr

def Phase.name : Phase → String
  | .ready => "READY" | .notReady => "NOT_READY" | .skip => "SKIP"

structure Out where
  phase : Phase
  failed : List Nat := []      -- failed_upstream_ids
  active : List Nat := []      -- active_upstream_ids
  deriving DecidableEq, Repr

/-- `_evaluate_and_join` -/
def andJoin (ups : List Up) : Out :=
  let failed := (ups.filter (·.status.isHalt)).map (·.ref)
  if !failed.isEmpty then { phase := .skip, failed := failed } else
  let notComplete := ups.filter (fun u => !u.status.isContinuable)
  let active := notComplete.filter (·.status.isActive)
  if notComplete.isEmpty then { phase := .ready }
  else if !active.isEmpty then { phase := .notReady, active := active.map (·.ref) }
  else { phase := .notReady, active := notComplete.map (·.ref) }

/-- `_evaluate_or_join` -/
def orJoin (activated : Option (List Nat)) (ups : List Up) : Out :=
  match activated with
  | none => andJoin ups
  | some act =>
    let relevant := ups.filter (fun u => act.contains u.ref)
    if relevant.isEmpty then { phase := .ready } else andJoin relevant

/-- `_evaluate_multi_merge` -/
def multiMerge (ups : List Up) : Out :=
  if ups.any (·.status.isContinuable) then { phase := .ready }
  else if ups.all (·.status.isHalt) then { phase := .skip, failed := ups.map (·.ref) }
  else { phase := .notReady, active := ups.map (·.ref) }

/-- `_evaluate_discriminator` -/
def discriminator (fired : Bool) (ups : List Up) : Out :=
  if fired then { phase := .notReady } else multiMerge ups

/-- `_evaluate_n_of_m` -/
def nOfM (threshold : Int) (fired : Bool) (ups : List Up) : Out :=
  if threshold ≤ 0 then andJoin ups else
  if fired then { phase := .notReady } else
  let completed := ups.filter (·.status.isContinuable)
  let failed := ups.filter (fun u => !u.status.isContinuable && u.status.isHalt)
  let active := ups.filter (fun u => !u.status.isContinuable && !u.status.isHalt)
  if (completed.length : Int) ≥ threshold then { phase := .ready }
  else if ((completed.length + active.length : Nat) : Int) < threshold then
    { phase := .skip, failed := failed.map (·.ref) }
  else if !active.isEmpty then { phase := .notReady, active := active.map (·.ref) }
  else { phase := .notReady }

/-- `evaluate_readiness` -/
def evaluate (i : In) : Out :=
  if i.bypass then { phase := .ready }
  else if i.ups.isEmpty then { phase := .ready }
  else match i.join with
    | .or => orJoin i.activated i.ups
    | .multiMerge => multiMerge i.ups
    | .discriminator => discriminator i.joinFired i.ups
    | .nOfM => nOfM i.threshold i.joinFired i.ups
    | .and => andJoin i.ups

/-! ### driver: `ready <JOIN> <threshold> <fired 0/1> <activated: - | none | 1,2> <bypass 0/1> <ups: ref:STATUS,...|->` -/

def parseUp (s : String) : Option Up :=
  match s.splitOn ":" with
  | [r, st] => do pure { ref := (← Parse.nat? r), status := (← Status.ofName? st) }
  | _ => none

def parseIn (rest : String) : Option In :=
  match rest.splitOn " " with
  | [j, th, fired, act, byp, ups] => do
    let join ← JoinType.ofName? j
    let threshold ← Parse.int? th
    let joinFired ← Parse.bool? fired
    let activated ← (if act == "none" then some none else (Parse.natList? act).map some)
    let bypass ← Parse.bool? byp
    let ups ← (if ups == "-" then some [] else Parse.all? parseUp (ups.splitOn ","))
    pure { join, threshold, joinFired, activated, bypass, ups }
  | _ => none

def showOut (o : Out) : String :=
  s!"{o.phase.name} failed={Parse.showNats o.failed} active={Parse.showNats o.active}"

def drive (rest : String) : String :=
  match parseIn rest with
  | some i => showOut (evaluate i)
  | none => "bad-request"

end Stab.Ready
