/- Model `Engine` (driver token `engine`) — stub, to be filled in. -/
namespace Stab.Engine

/-- driver entry: the rest of the request line after the model token -/
def drive (_rest : String) : String := "unimplemented"

end Stab.Engine
