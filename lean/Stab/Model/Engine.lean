/-
  Executable model of the message-driven engine: durable state × queue, one handler per message
  type, each returning the list of transactions it commits (in order).  Written to read like the
  Python handlers (`src/stabilize/handlers/*`); tied to them by the Mode-A trace differential
  (`harness/engine.py`: same workflow spec + same op list → same state line after every op).

  Scope (workflow class W0–W4 of DESIGN.md): top-level stages only (no synthetic stages), all join
  types, scripted tasks, cancel, jumps, suspend/signals.  Not modelled: mutex / deferred choice
  (see `Claims`), OR-split conditions, timeouts, pause/resume.
-/
import Stab.Model.Ready
import Stab.Model.Jump

namespace Stab.Engine
open Stab

/-! ## configuration -/

/-- what the scripted task does on its n-th execution -/
inductive Outcome where
  | succ | terminal | failedContinue | stopped | canceled | skipped | redirect
  | running | suspend | transient | permanent
  | jump (target : Nat)
  deriving DecidableEq, Repr, Inhabited

structure StageCfg where
  reqs : List Nat
  join : JoinType
  threshold : Int
  cont : Bool                 -- context["continuePipelineOnFailure"]
  failp : Bool                -- context["failPipeline"] (default True)
  enabled : Option Bool       -- context["stageEnabled"]
  maxj : Option Int           -- context["_max_jumps"]
  tasks : List (List Outcome) -- per task: outcome per execution, the last one repeats
  split : List (Nat × Bool) := []   -- OR-split (`split_type = OR`): downstream stage -> value of its `split_conditions`
                                    -- expression (constant in the harness); `[]` = AND-split (no conditions)
  deriving Repr, Inhabited

structure Cfg where
  wfMaxj : Option Int
  stages : List StageCfg
  waitMax : Nat := 2          -- max_stage_wait_retries (harness sets it small)
  maxAttempts : Nat := 10     -- RunTask.max_attempts default
  deriving Repr, Inhabited

def Cfg.stage (c : Cfg) (i : Nat) : StageCfg := c.stages.getD i default
def Cfg.n (c : Cfg) : Nat := c.stages.length
def Cfg.reqs (c : Cfg) (i : Nat) : List Nat := (c.stage i).reqs
/-- `get_downstream_stages`: stages that list `i` as a requisite, in table (= creation) order -/
def Cfg.down (c : Cfg) (i : Nat) : List Nat :=
  (List.range c.n).filter (fun j => (c.reqs j).contains i)
def Cfg.graph (c : Cfg) : Jump.Graph := c.stages.map (·.reqs)

/-! ## state -/

abbrev KV := List (Nat × Nat)

def KV.set : KV → Nat → Nat → KV
  | [], k, v => [(k, v)]
  | (k', v') :: rest, k, v =>
    if k == k' then (k, v) :: rest
    else if k < k' then (k, v) :: (k', v') :: rest
    else (k', v') :: KV.set rest k v

/-- `base.update(over)` -/
def KV.merge (base over : KV) : KV := over.foldl (fun m kv => KV.set m kv.1 kv.2) base

structure TaskSt where
  status : Status := .notStarted
  started : Bool := false             -- start_time is not None
  deriving DecidableEq, Repr, Inhabited

structure StageSt where
  status : Status := .notStarted
  version : Nat := 0
  startSet : Bool := false            -- start_time is not None
  tasks : List TaskSt := []
  joinFired : Bool := false           -- context["_join_fired"]
  jumpBypass : Bool := false          -- context["_jump_bypass"]
  hasEx : Bool := false               -- "exception" in context
  completed : List Nat := []          -- context["_completed_branches"]
  jumpCount : Option Int := none      -- context["_jump_count"]
  buffered : Nat := 0                 -- len(context["_buffered_signals"])
  data : KV := []                     -- context["v<k>"] entries
  outputs : KV := []                  -- outputs["v<k>"] entries
  deriving DecidableEq, Repr, Inhabited

inductive Msg where
  | startWorkflow
  | startStage (s : Nat) (retry : Nat)
  | startTask (s t : Nat)
  | runTask (s t : Nat)
  | completeTask (s t : Nat) (st : Status)
  | completeStage (s : Nat)
  | skipStage (s : Nat)
  | cancelStage (s : Nat)
  | completeWorkflow (retry : Nat)
  | cancelWorkflow
  | jumpToStage (src tgt : Nat)
  | signalStage (s : Nat) (persistent : Bool)
  deriving DecidableEq, Repr, Inhabited

structure Row where
  id : Nat
  msg : Msg
  attempts : Nat := 0
  deriving DecidableEq, Repr, Inhabited

/-- an executed task: (stage, task, n-th execution, the `v*` context it was handed) -/
structure Exec where
  s : Nat
  t : Nat
  n : Nat
  seen : KV
  deriving DecidableEq, Repr

inductive Ent where
  | wf | stage (s : Nat) | task (s t : Nat)
  deriving DecidableEq, Repr

structure AuditRow where
  ent : Ent
  old : Status
  new : Status
  deriving DecidableEq, Repr

structure State where
  wfStatus : Status := .notStarted
  canceled : Bool := false
  stages : List StageSt := []
  queue : List Row := []
  nextId : Nat := 1
  processed : List Nat := []
  -- outside the engine / ghost
  execCount : List ((Nat × Nat) × Nat) := []
  ledger : List Exec := []
  audit : List AuditRow := []
  deriving Repr, Inhabited

def State.stage (s : State) (i : Nat) : StageSt := s.stages.getD i default

def initState (c : Cfg) : State :=
  { stages := c.stages.map (fun sc => { tasks := sc.tasks.map (fun _ => {}) }) }

/-! ## effects and transactions -/

inductive Eff where
  | setStage (i : Nat) (new : StageSt)     -- store_stage: whole row, version + 1
  | setWf (st : Status)                    -- update_workflow_status
  | setCanceled                            -- repository.cancel
  | push (m : Msg)                         -- push_message / queue.push (row attempts = 0)
  | pushA (m : Msg) (attempts : Nat)       -- push_message of a retry copy: the row carries message.attempts
  | mark (id : Nat)                        -- mark_message_processed
  deriving Repr

abbrev Txn := List Eff

def auditTasks (i : Nat) (old new : List TaskSt) : List AuditRow :=
  ((List.range old.length).filterMap fun t =>
    let o := (old.getD t default).status
    let n := (new.getD t default).status
    if o != n then some { ent := .task i t, old := o, new := n } else none)

def applyEff (s : State) : Eff → State
  | .setStage i new =>
    if i ≥ s.stages.length then s else     -- no such stage row: nothing is written
    let old := s.stage i
    let new' := { new with version := old.version + 1 }
    let a1 := if old.status != new.status then [{ ent := .stage i, old := old.status, new := new.status : AuditRow }] else []
    { s with stages := s.stages.set i new', audit := s.audit ++ a1 ++ auditTasks i old.tasks new.tasks }
  | .setWf st =>
    let a := if s.wfStatus != st then [{ ent := .wf, old := s.wfStatus, new := st : AuditRow }] else []
    { s with wfStatus := st, audit := s.audit ++ a }
  | .setCanceled => { s with canceled := true }
  | .push m => { s with queue := s.queue ++ [{ id := s.nextId, msg := m }], nextId := s.nextId + 1 }
  | .pushA m a => { s with queue := s.queue ++ [{ id := s.nextId, msg := m, attempts := a }], nextId := s.nextId + 1 }
  | .mark id => if s.processed.contains id then s else { s with processed := s.processed ++ [id] }

def applyTxn (s : State) (t : Txn) : State := t.foldl applyEff s
def applyTxns (s : State) (ts : List Txn) : State := ts.foldl applyTxn s

/-! ## pure helpers mirroring model methods -/

/-- `StageExecution.failure_status(default)` -/
def failureStatus (sc : StageCfg) (dflt : Status) : Status :=
  if sc.cont then .failedContinue else if sc.failp then dflt else .stopped

/-- `StageExecution.determine_status()` without synthetic stages; `cur` = stage.status -/
def determineStatus (sc : StageCfg) (cur : Status) (ts : List Status) : Status :=
  if ts.isEmpty then (if cur == .running then .succeeded else .notStarted)
  else if ts.contains .terminal then failureStatus sc .terminal
  else if ts.contains .stopped then .stopped
  else if ts.contains .canceled then .canceled
  else if ts.contains .paused then .paused
  else if ts.contains .buffered then .buffered
  else if ts.contains .suspended then .suspended
  else if ts.any (fun s => s == .notStarted || s == .running) then .running
  else if ts.all (fun s => s == .succeeded || s == .skipped || s == .failedContinue) then
    (if ts.contains .failedContinue then .failedContinue else .succeeded)
  else .running

/-- `all_upstream_stages_complete` on the full execution -/
def allUpContinuable (c : Cfg) (s : State) (i : Nat) : Bool :=
  (c.reqs i).all (fun u => (s.stage u).status.isContinuable)

/-- some stage is explicitly waiting (SUSPENDED for a signal, PAUSED for a resume) -/
def explicitlyWaiting (s : State) : Bool :=
  s.stages.any (fun st => st.status == .suspended || st.status == .paused)

/-- `CompleteWorkflowHandler._determine_final_status`: `some st` = final status, `none` = not ready (re-queue,
    or stop polling when a stage is explicitly waiting) -/
def finalStatus (c : Cfg) (s : State) (retry : Nat) : Option Status :=
  let sts := s.stages.map (·.status)
  if sts.all (·.isContinuable) then some .succeeded
  else if sts.contains .terminal then some .terminal
  else if sts.contains .canceled then some .canceled
  else
    let otherIncomplete := (List.range c.n).any (fun i =>
      (s.stage i).status == .running || (s.stage i).status == .suspended || (s.stage i).status == .paused   -- F43
        || ((s.stage i).status == .notStarted && allUpContinuable c s i))
    if sts.contains .stopped && !otherIncomplete then some .succeeded
    else if explicitlyWaiting s && !s.canceled then none   -- waiting is not "stuck": no wait budget is spent on it
                                                           -- (F38 repair: unless a cancel is in progress - CancelStage pushes no
                                                           -- CompleteWorkflow, this poll chain finalises the canceled workflow)
    else if retry ≥ c.waitMax then some .terminal
    else none

/-- ancestors (transitive requisites), fuel = number of stages -/
def ancestorsAux (c : Cfg) : Nat → List Nat → List Nat
  | 0, acc => acc
  | fuel + 1, acc =>
    let more := (acc.flatMap (c.reqs ·)).filter (fun r => !acc.contains r)
    if more.isEmpty then acc else ancestorsAux c fuel (acc ++ more.eraseDups)

def ancestors (c : Cfg) (i : Nat) : List Nat :=
  (ancestorsAux c c.n (c.reqs i).eraseDups)

/-- `get_merged_ancestor_outputs` for outputs whose keys are private to the producing stage
    (`v<k>` is written by stage k only), so the merge order is irrelevant -/
def mergedAncestorOutputs (c : Cfg) (s : State) (i : Nat) : KV :=
  (ancestors c i).foldl (fun m a => KV.merge m (s.stage a).outputs) []

/-- `_plan_stage`: ancestors first, then own context wins -/
def plannedData (c : Cfg) (s : State) (i : Nat) (own : KV) : KV :=
  KV.merge (mergedAncestorOutputs c s i) own

def readyIn (c : Cfg) (s : State) (i : Nat) (bypass : Bool) : Ready.In :=
  let sc := c.stage i
  { join := sc.join, threshold := sc.threshold, joinFired := (s.stage i).joinFired,
    activated := none, bypass := bypass,
    ups := (c.reqs i).map (fun u => { ref := u, status := (s.stage u).status }) }

def setTask (ts : List TaskSt) (t : Nat) (f : TaskSt → TaskSt) : List TaskSt :=
  ts.set t (f (ts.getD t default))

def outcomeAt (sc : StageCfg) (t n : Nat) : Outcome :=
  let script := sc.tasks.getD t []
  script.getD (min (n - 1) (script.length - 1)) .succ

def getCount (s : State) (k : Nat × Nat) : Nat :=
  match s.execCount.find? (fun e => e.1 == k) with
  | some e => e.2
  | none => 0

def bumpCount (s : State) (k : Nat × Nat) : State :=
  let n := getCount s k + 1
  { s with execCount := (s.execCount.filter (fun e => e.1 != k)) ++ [(k, n)] }

/-! ## handlers

Each handler gets the durable state it reads, the row id of the message it handles, and returns
the list of transactions it commits, in order (empty list = returns without writing).
`runTask` additionally returns the world change (execution counter + ledger). -/

def hStartWorkflow (c : Cfg) (s : State) (id : Nat) : List Txn :=
  if s.wfStatus != .notStarted then []
  else if s.canceled then [[.push .cancelWorkflow]]     -- canceled before it started: handed to the regular cancel path (F60)
  else
    let initial := (List.range c.n).filter (fun i => (c.reqs i).isEmpty)
    if initial.isEmpty then [[.setWf .terminal, .mark id]]
    else [[.setWf .running, .mark id] ++ initial.map (fun i => Eff.push (.startStage i 0))]

/-- `_start_if_ready` after READY -/
def startIfReady (c : Cfg) (s : State) (id i : Nat) (bypass : Bool) : List Txn :=
  let sc := c.stage i
  let st := s.stage i
  -- the in-memory stage: `_jump_bypass` already deleted when it was set
  let st0 := if bypass then { st with jumpBypass := false } else st
  let zombie := st.status == .running && st.tasks.isEmpty
  if st.status != .notStarted && !zombie then []
  else if sc.enabled == some false then [[.mark id, .push (.skipStage i)]]
  else
    let claimed : StageSt := if st.status == .running then st0 else { st0 with status := .running, startSet := true }
    let fired := sc.join == .discriminator || sc.join == .nOfM
    let planned : StageSt :=
      { claimed with joinFired := claimed.joinFired || fired, data := plannedData c s i claimed.data }
    let next : Msg := if planned.tasks.isEmpty then .completeStage i else .startTask i 0
    [[.setStage i claimed], [.setStage i planned, .mark id, .push next]]

def hStartStageCore (c : Cfg) (s : State) (id i retry : Nat) : List Txn :=
  let st := s.stage i
  let bypass := st.jumpBypass
  let r := Ready.evaluate (readyIn c s i bypass)
  match r.phase with
  | .ready => startIfReady c s id i bypass
  | .skip => [[.push (.completeWorkflow 0)]]
  | .notReady =>
    let anyActive := (c.reqs i).any (fun u => (s.stage u).status.isActive)
    if st.status != .notStarted then []      -- stale StartStage: the stage already left NOT_STARTED
    else if !r.active.isEmpty && anyActive then []
    else if retry ≥ c.waitMax then
      if Status.canTransition st.status .terminal then
        [[.setStage i { st with status := .terminal, hasEx := true, jumpBypass := false }, .push (.completeStage i)]]
      else
        -- InvalidStateTransitionError → `do_mark_error` on the fresh stage
        [[.setStage i { st with hasEx := true }, .push (.completeStage i)]]
    else [[.push (.startStage i (retry + 1))]]

/-- `StartStageHandler.handle`; F26 repair: once a cancel is durable nothing new starts (the CancelStage fan-out
    settles the stage), the message is only acknowledged; F37 repair: the same once the workflow has a final status
    (recovery no longer looks at it, a stage claimed then would stay RUNNING if the worker died before planning) -/
def hStartStage (c : Cfg) (s : State) (id i retry : Nat) : List Txn :=
  if (s.canceled || s.wfStatus.isComplete) && (s.stage i).status == .notStarted then
    -- F66 repair: a cancel that only set the flag (WorkflowStore.cancel() called directly) produced no CancelStage fan-out:
    -- the guard hands the workflow to the regular cancel path (CancelWorkflow: fan-out + CompleteWorkflow)
    if s.canceled && !s.wfStatus.isComplete then [[.mark id, .push .cancelWorkflow]] else []
  else hStartStageCore c s id i retry

def hStartTask (_c : Cfg) (s : State) (id i t : Nat) : List Txn :=
  let st := s.stage i
  let task := st.tasks.getD t default
  if task.status != .notStarted then [[.mark id]]
  else
    [[.setStage i { st with tasks := setTask st.tasks t (fun _ => { status := .running, started := true }) },
      .mark id, .push (.runTask i t)]]

/-- `process_result` on the reloaded stage `st` -/
def processResult (c : Cfg) (st : StageSt) (id i t n : Nat) (oc : Outcome) : List Txn :=
  let sc := c.stage i
  let withOut : StageSt := { st with outputs := KV.set st.outputs i n }
  match oc with
  | .running => [[.setStage i st, .mark id, .push (.runTask i t)]]   -- copy_with_attempts(0), source marked
  | .jump tgt => [[.setStage i withOut, .mark id, .push (.jumpToStage i tgt), .push (.completeTask i t .redirect)]]
  | .succ => [[.setStage i withOut, .mark id, .push (.completeTask i t .succeeded)]]
  | .redirect => [[.setStage i st, .mark id, .push (.completeTask i t .redirect)]]
  | .skipped => [[.setStage i st, .mark id, .push (.completeTask i t .skipped)]]
  | .failedContinue => [[.setStage i st, .mark id, .push (.completeTask i t .failedContinue)]]
  | .stopped => [[.setStage i st, .mark id, .push (.completeTask i t .stopped)]]
  | .suspend =>
    if st.status != .running || (st.tasks.getD t default).status != .running then [[.mark id]]
    else if st.buffered > 0 then
      [[.setStage i { st with buffered := st.buffered - 1, status := .running,
                              tasks := setTask st.tasks t (fun x => { x with status := .running }) },
        .mark id, .push (.runTask i t)]]
    else
      [[.setStage i { st with status := .suspended,
                              tasks := setTask st.tasks t (fun x => { x with status := .suspended }) }, .mark id]]
  | .canceled => [[.setStage i st, .mark id, .push (.completeTask i t (failureStatus sc .canceled))]]
  | .terminal => [[.setStage i st, .mark id, .push (.completeTask i t (failureStatus sc .terminal))]]
  | .transient => []   -- handled by the caller (needs message attempts)
  | .permanent => [[.setStage i { st with hasEx := true }, .mark id, .push (.completeTask i t (failureStatus sc .terminal))]]

/-- phase 1 of RunTask (guards on the state it read): `none` = the task is executed, `some txns` = it is not -/
def runTaskGuard (s : State) (id i t : Nat) : Option (List Txn) :=
  let st := s.stage i
  let task := st.tasks.getD t default
  if task.status != .running then some [[.mark id]]
  else if s.canceled then some [[.mark id, .push (.completeTask i t .canceled)]]
  else if s.wfStatus.isComplete then some [[.mark id, .push (.completeTask i t .canceled)]]
  else none

/-- phase 2 of RunTask: commit outcome `oc` of execution `n` on the stage as RELOADED (`st`) -/
def runTaskCommit (c : Cfg) (st : StageSt) (id i t attempts n : Nat) (oc : Outcome) : List Txn :=
  match oc with
  | .transient =>
    -- `current_attempts = max(message.attempts - 1, 0)`; the retry copy carries current + 1 in its row
    let current := attempts - 1
    if current + 1 < c.maxAttempts then [[.mark id, .pushA (.runTask i t) (current + 1)]]
    else [[.setStage i { st with hasEx := true }, .mark id,
           .push (.completeTask i t (failureStatus (c.stage i) .terminal))]]
  | _ => processResult c st id i t n oc

/-- RunTask: returns (transactions, executed?) -/
def hRunTask (c : Cfg) (s : State) (id i t attempts : Nat) : List Txn × Bool :=
  match runTaskGuard s id i t with
  | some txns => (txns, false)
  | none =>
    let n := getCount s (i, t) + 1
    (runTaskCommit c (s.stage i) id i t attempts n (outcomeAt (c.stage i) t n), true)

def hCompleteTask (_c : Cfg) (s : State) (id i t : Nat) (status : Status) : List Txn :=
  let st := s.stage i
  let task := st.tasks.getD t default
  if task.status != .running then [[.mark id]]
  else
    let st' := { st with tasks := setTask st.tasks t (fun x => { x with status := status }) }
    if status == .redirect then [[.setStage i st', .mark id]]
    else if t + 1 < st.tasks.length then [[.setStage i st', .mark id, .push (.startTask i (t + 1))]]
    else [[.setStage i st', .mark id, .push (.completeStage i)]]

/-- `_update_join_tracking`: one auto-commit store per downstream discriminator / N-of-M stage -/
def joinTracking (c : Cfg) (s : State) (i : Nat) : List Txn :=
  (c.down i).filterMap fun d =>
    let j := (c.stage d).join
    if j == .discriminator || j == .nOfM then
      let ds := s.stage d
      if ds.completed.contains i then none
      else some [.setStage d { ds with completed := ds.completed ++ [i] }]
    else none

/-- `_apply_split_logic`: which downstream stages an OR-split activates / skips (AND-split: all activated).
    A downstream without a condition is activated; when no condition holds the first downstream is activated and
    the others are skipped. -/
def splitPartition (sc : StageCfg) (down : List Nat) : List Nat × List Nat :=
  if sc.split.isEmpty then (down, [])
  else
    let act := down.filter (fun d => (sc.split.lookup d).getD true)
    let skip := down.filter (fun d => !(sc.split.lookup d).getD true)
    if act.isEmpty then (down.take 1, down.drop 1) else (act, skip)

/-- the continuation a successfully completing stage pushes in its commit: StartStage for the activated downstream
    stages, SkipStage for the others, CompleteWorkflow when it has no downstream.
    (`_record_activated_branches` looks for the paired OR-join in `stage.execution`, which `retrieve_stage` fills with
    the stage, its upstream and its synthetic stages only: the downstream join is never found and `_activated_branches`
    is never written - the OR-join evaluates as an AND-join over its upstream, skipped branches being continuable.) -/
def splitCont (sc : StageCfg) (down : List Nat) : List Eff :=
  if down.isEmpty then [.push (.completeWorkflow 0)]
  else
    let p := splitPartition sc down
    p.1.map (fun d => Eff.push (.startStage d 0)) ++ p.2.map (fun d => Eff.push (.skipStage d))

def hCompleteStage (c : Cfg) (s : State) (id i : Nat) : List Txn :=
  let sc := c.stage i
  let st := s.stage i
  if st.status == .notStarted then [[.mark id]]
  else if st.status != .running then
    if st.status.isHalt then [[.mark id, .push (.completeWorkflow 0)]] else []
  else
    let status := determineStatus sc st.status (st.tasks.map (·.status))
    if status == .running then [[.mark id]]
    else if !Status.canTransition st.status status then
      -- set_stage_status raises; generic error branch: TERMINAL + CancelStage + CompleteWorkflow
      [[.setStage i { st with status := .terminal, hasEx := true }, .push (.cancelStage i), .push (.completeWorkflow 0)]]
    else
      let st' := { st with status := status }
      if status == .succeeded || status == .failedContinue || status == .skipped then
        let down := c.down i
        joinTracking c s i ++ [[.setStage i st', .mark id] ++ splitCont sc down]
      else
        [[.setStage i st', .push (.cancelStage i), .push (.completeWorkflow 0)]]

def hSkipStage (c : Cfg) (s : State) (id i : Nat) : List Txn :=
  let st := s.stage i
  if st.status != .notStarted then []
  else if s.canceled then   -- F26 repair: nothing is skipped once a cancel is durable; F66: ... and the guard finishes the cancel
    if !s.wfStatus.isComplete then [[.mark id, .push .cancelWorkflow]] else []
  else
    let down := c.down i
    let cont : List Eff := if down.isEmpty then [.push (.completeWorkflow 0)] else down.map (fun d => .push (.startStage d 0))
    [[.setStage i { st with status := .skipped }, .mark id] ++ cont]

def hCancelStage (_c : Cfg) (s : State) (id i : Nat) : List Txn :=
  let st := s.stage i
  if st.status.isComplete then []
  else
    let tasks := st.tasks.map (fun x => if x.status == .notStarted || x.status == .running then { x with status := .canceled } else x)
    [[.setStage i { st with status := .canceled, tasks := tasks }, .mark id]]

/-- `set_workflow_status` raises `InvalidStateTransitionError` (e.g. NOT_STARTED → SUCCEEDED):
    the processor then reschedules the message instead of acking it -/
def completeWorkflowRaises (c : Cfg) (s : State) (retry : Nat) : Bool :=
  !s.wfStatus.isComplete &&
    match finalStatus c s retry with
    | none => false
    | some status => !Status.canTransition s.wfStatus status

def hCompleteWorkflow (c : Cfg) (s : State) (id retry : Nat) : List Txn :=
  if s.wfStatus.isComplete then []
  else match finalStatus c s retry with
    | none => if explicitlyWaiting s && !s.canceled then [] else [[.push (.completeWorkflow (retry + 1))]]
    | some status =>
      if !Status.canTransition s.wfStatus status then [] else
      -- F66 repair: in a CANCELED-flagged workflow every stage that is not finished is canceled, not only the RUNNING ones (a
      -- cancel that only set the flag has produced no fan-out: stages that never started would stay NOT_STARTED)
      let running := if status != .succeeded then
          (List.range c.n).filter (fun i => (s.stage i).status == .running || (s.canceled && !(s.stage i).status.isComplete))
        else []
      [[.setWf status, .mark id] ++ running.map (fun i => .push (.cancelStage i))]

def hCancelWorkflow (c : Cfg) (s : State) (id : Nat) : List Txn :=
  let toCancel := (List.range c.n).filter (fun i => !(s.stage i).status.isComplete)
  if s.wfStatus.isComplete then
    -- F40: a worker that died between the flag commit and the fan-out commit leaves the message un-acked; the workflow can
    -- finish before the redelivery, and the stages that never started are still canceled then (no CompleteWorkflow)
    if s.canceled && !toCancel.isEmpty then [[.mark id] ++ toCancel.map (fun i => .push (.cancelStage i))]
    else [[.mark id]]
  else
    [[.setCanceled], [.mark id] ++ toCancel.map (fun i => .push (.cancelStage i)) ++ [.push (.completeWorkflow 0)]]

/-- `reset_stage_for_retry` -/
def resetForRetry (st : StageSt) : StageSt :=
  { st with status := .notStarted, startSet := false, outputs := [], joinFired := false, completed := [],
            data := [],   -- `_hydrated_keys`: every `v*` context key was hydrated from ancestors, a re-arm drops them
            tasks := st.tasks.map (fun _ => {}) }

def hJumpToStage (c : Cfg) (s : State) (id src tgt : Nat) : List Txn :=
  let source := s.stage src
  let sc := c.stage src
  if source.status != .running || s.canceled then [[.mark id]]     -- stale jump: the source is no longer RUNNING, or a cancel
                                                                  -- has been accepted meanwhile (F56)
  else if tgt ≥ c.n then
    -- target not found: source TERMINAL (+ RUNNING tasks TERMINAL), CompleteStage
    [[.setStage src { source with status := .terminal,
                                  tasks := source.tasks.map (fun x => if x.status == .running || x.status == .redirect then { x with status := .terminal } else x) },
      .mark id, .push (.completeStage src)]]
  else
    let count : Int := source.jumpCount.getD 0
    let maxj := Jump.effectiveMax c.wfMaxj sc.maxj
    if !Jump.jumpAccepted count maxj then
      [[.setStage src { source with status := .terminal,
                                    tasks := source.tasks.map (fun x => if x.status == .running || x.status == .redirect then { x with status := .terminal } else x) },
        .mark id, .push (.completeStage src)]]
    else
      let g := c.graph
      let selfLoop := src == tgt
      let backward := Jump.isBackward g src tgt
      let newCount := count + 1
      let resets := (Jump.resettable g tgt).filter (fun d => d != src && d != tgt)
      let skips := if backward then [] else (Jump.skipped g src tgt).filter (fun k => (s.stage k).status == .notStarted)
      let e1 : List Eff := resets.map (fun d => .setStage d (resetForRetry (s.stage d)))
      let e2 : List Eff := skips.map (fun k =>
        let ks := s.stage k
        .setStage k { ks with status := .skipped, tasks := ks.tasks.map (fun x => { x with status := .skipped }) })
      let e3 : List Eff :=
        if selfLoop then []
        else if backward then [.setStage src { resetForRetry source with jumpCount := some newCount }]
        else [.setStage src { source with status := .succeeded, jumpCount := some newCount,
                                          tasks := source.tasks.map (fun x => if x.status == .running || x.status == .redirect then { x with status := .succeeded } else x) }]
      -- the target's context is the copy taken from the full execution BEFORE the transaction
      let target := s.stage tgt
      let tgtCount : Int := max (target.jumpCount.getD 0) newCount     -- never lower the target's own counter
      let e4 : List Eff := [.setStage tgt { resetForRetry target with jumpBypass := true, jumpCount := some tgtCount }]
      -- F29 repair: a forward jump completes its source and the skipped stages without `start_next`; every NOT_STARTED
      -- stage outside the target's chain that depends on one of them is triggered in the same commit
      let chain := tgt :: Jump.downstream g tgt
      let done := if backward then [] else src :: skips
      let extra := (List.range c.n).filter (fun d =>
        (s.stage d).status == .notStarted && !chain.contains d && !done.contains d && (c.reqs d).any (fun u => done.contains u))
      [e1 ++ e2 ++ e3 ++ e4 ++ [.mark id, .push (.startStage tgt 0)] ++ extra.map (fun d => .push (.startStage d 0))]

def hSignalStage (_c : Cfg) (s : State) (id i : Nat) (persistent : Bool) : List Txn :=
  let st := s.stage i
  if st.status == .suspended then
    match (List.range st.tasks.length).find? (fun t => (st.tasks.getD t default).status == .suspended) with
    | some t =>
      [[.setStage i { st with status := .running, tasks := setTask st.tasks t (fun x => { x with status := .running }) },
        .mark id, .push (.runTask i t)]]
    | none => [[.setStage i { st with status := .running }, .mark id, .push (.startStage i 0)]]
  else if persistent then [[.setStage i { st with buffered := st.buffered + 1 }, .mark id]]
  else [[.mark id]]

/-- does the handler raise (the processor reschedules instead of mark + ack)? -/
def raises (c : Cfg) (s : State) (row : Row) : Bool :=
  match row.msg with
  | .completeWorkflow r => completeWorkflowRaises c s r
  | _ => false

/-- dispatch; the Bool says whether a task execution happened (RunTask only) -/
def handle (c : Cfg) (s : State) (row : Row) : List Txn × Bool :=
  match row.msg with
  | .startWorkflow => (hStartWorkflow c s row.id, false)
  | .startStage i r => (hStartStage c s row.id i r, false)
  | .startTask i t => (hStartTask c s row.id i t, false)
  | .runTask i t => hRunTask c s row.id i t row.attempts
  | .completeTask i t st => (hCompleteTask c s row.id i t st, false)
  | .completeStage i => (hCompleteStage c s row.id i, false)
  | .skipStage i => (hSkipStage c s row.id i, false)
  | .cancelStage i => (hCancelStage c s row.id i, false)
  | .completeWorkflow r => (hCompleteWorkflow c s row.id r, false)
  | .cancelWorkflow => (hCancelWorkflow c s row.id, false)
  | .jumpToStage a b => (hJumpToStage c s row.id a b, false)
  | .signalStage i p => (hSignalStage c s row.id i p, false)

/-! ## operations (what the harness can do to the engine) -/

inductive Op where
  | deliver (id : Nat)          -- poll-claim, handle, processor mark, ack
  | deliverNoAck (id : Nat)     -- poll-claim, handle; the worker dies before mark + ack
  | cancel                      -- Orchestrator.cancel
  | signal (s : Nat) (persistent : Bool)
  | crash (id : Nat) (k : Nat)  -- poll-claim, then the worker is killed after k durable commits of the delivery
  | sweep                       -- WorkflowRecovery.recover_pending_workflows (one transaction)
  | nested (id : Nat) (inner : List Nat)
      -- deliver RunTask row `id`; WHILE its task executes a second worker fully delivers rows `inner`;
      -- the result is then committed on the RELOADED stage (RunTask's two phases)
  deriving Repr

/-- `queue.has_pending_message_for_task(task.id)`: any queued row whose payload carries that task id -/
def hasPendingForTask (s : State) (i t : Nat) : Bool :=
  s.queue.any fun r =>
    match r.msg with
    | .startTask a b | .runTask a b | .completeTask a b _ => a == i && b == t
    | _ => false

/-- `WorkflowRecovery._can_start` -/
def canStart (c : Cfg) (s : State) (i : Nat) : Bool :=
  let sc := c.stage i
  if sc.reqs.isEmpty then true
  else if (sc.join == .discriminator || sc.join == .nOfM) && (s.stage i).joinFired then false
  else if sc.reqs.any (fun u => ((c.stage u).split.lookup i).isSome) then false   -- F39 repair: an OR-split decides
  else if sc.join == .nOfM then
    if sc.threshold > (sc.reqs.length : Int) then false
    else (((sc.reqs.filter (fun u => (s.stage u).status.isContinuable)).length : Nat) : Int) ≥ sc.threshold
  else sc.reqs.all (fun u => (s.stage u).status.isContinuable)

/-- `WorkflowRecovery._has_started` -/
def hasStarted (st : StageSt) : Bool := st.startSet || st.tasks.any (·.started)

/-- recovery messages for one stage that is to be re-queued -/
def sweepStage (s : State) (i : Nat) : List Msg :=
  let st := s.stage i
  if st.status == .running then
    let idx := List.range st.tasks.length
    let running := idx.filter (fun t => (st.tasks.getD t default).status == .running)
    let notStarted := idx.filter (fun t => (st.tasks.getD t default).status == .notStarted)
    if !running.isEmpty then
      (running.filter (fun t => !hasPendingForTask s i t)).map (fun t => Msg.runTask i t)
    else if !notStarted.isEmpty && st.startSet then
      match notStarted.head? with
      | some t => if hasPendingForTask s i t then [] else [.startTask i t]
      | none => []
    else [.startStage i 0]
  else [.startStage i 0]

/-- stages `_recover_workflow` re-queues -/
def sweepRequeue (c : Cfg) (s : State) : List Nat :=
  (List.range c.n).filter fun i =>
    let st := s.stage i
    st.status == .running || (st.status == .notStarted && (hasStarted st || canStart c s i))

/-- messages `WorkflowRecovery._recover_workflow` pushes (all in one transaction) -/
def sweepMsgs (c : Cfg) (s : State) : List Msg :=
  if !(s.wfStatus == .running || s.wfStatus == .notStarted) then []
  else
    let requeue := sweepRequeue c s
    if requeue.isEmpty then (if s.wfStatus == .notStarted then [.startWorkflow] else [])
    else requeue.flatMap (sweepStage s)

def claimRow (s : State) (id : Nat) : State :=
  { s with queue := s.queue.map (fun r => if r.id == id then { r with attempts := r.attempts + 1 } else r) }

def ackRow (s : State) (id : Nat) : State := { s with queue := s.queue.filter (fun r => r.id != id) }

def recordExec (c : Cfg) (s : State) (row : Row) : State :=
  match row.msg with
  | .runTask i t =>
    let s1 := bumpCount s (i, t)
    let _ := c
    { s1 with ledger := s1.ledger ++ [{ s := i, t := t, n := getCount s1 (i, t), seen := (s.stage i).data }] }
  | _ => s

/-- run the handler on the claimed state: record the task execution (if any), then apply its
    transactions — all of them, or only the first `k` when the worker is killed after `k` commits -/
def afterHandle (c : Cfg) (s1 : State) (row : Row) (k : Option Nat) : State :=
  let r := handle c s1 row
  let s2 := if r.2 then recordExec c s1 row else s1
  -- killed before the result commit: the execution is in the ledger, but the scripted task is a
  -- function of the RECORDED executions (a re-execution behaves the same), so the counter is not advanced
  let s2 := if r.2 && k == some 0 then { s2 with execCount := s1.execCount } else s2
  applyTxns s2 (match k with | none => r.1 | some k => r.1.take k)

/-- a delivery of `row0` (already looked up) in mode `deliver` / `deliverNoAck` / `crash k` -/
def deliverRow (c : Cfg) (s : State) (row0 : Row) (ack : Bool) (k : Option Nat) : State :=
  let s1 := claimRow s row0.id
  let row := { row0 with attempts := row0.attempts + 1 }
  if s1.processed.contains row0.id then (if ack then ackRow s1 row0.id else s1)
  else
    let s3 := afterHandle c s1 row k
    let done := match k with | none => true | some k => decide (k > (handle c s1 row).1.length)
    if raises c s1 row then s3
    else if ack then ackRow (applyEff s3 (.mark row0.id)) row0.id
    else if done && k.isSome then applyEff s3 (.mark row0.id)
    else s3

def step (c : Cfg) (s : State) : Op → State
  | .deliver id =>
    match s.queue.find? (fun r => r.id == id) with
    | none => s
    | some row0 => deliverRow c s row0 true none
  | .deliverNoAck id =>
    match s.queue.find? (fun r => r.id == id) with
    | none => s
    | some row0 => deliverRow c s row0 false none
  | .crash id k =>
    match s.queue.find? (fun r => r.id == id) with
    | none => s
    | some row0 => deliverRow c s row0 false (some k)
  | .cancel => applyEff s (.push .cancelWorkflow)
  | .signal i p => applyEff s (.push (.signalStage i p))
  | .sweep => applyTxn s ((sweepMsgs c s).map Eff.push)
  | .nested id inner =>
    match s.queue.find? (fun r => r.id == id) with
    | none => s
    | some row0 =>
      match row0.msg with
      | .runTask i t =>
        let s1 := claimRow s row0.id
        let row := { row0 with attempts := row0.attempts + 1 }
        if s1.processed.contains row0.id then ackRow s1 row0.id
        else match runTaskGuard s1 row0.id i t with
          | some _ => deliverRow c s row0 true none            -- not executed: an ordinary delivery
          | none =>
            let n := getCount s1 (i, t) + 1
            let s2 := recordExec c s1 row
            -- the second worker's deliveries (each a complete deliver + mark + ack)
            let s3 := inner.foldl (fun st j =>
              match st.queue.find? (fun r => r.id == j) with
              | none => st
              | some rj => deliverRow c st rj true none) s2
            let txns := runTaskCommit c (s3.stage i) row0.id i t row.attempts n (outcomeAt (c.stage i) t n)
            ackRow (applyEff (applyTxns s3 txns) (.mark row0.id)) row0.id
      | _ => deliverRow c s row0 true none

def start (c : Cfg) : State := applyEff (initState c) (.push .startWorkflow)

def run (c : Cfg) (ops : List Op) : State := ops.foldl (step c) (start c)

/-- all intermediate states, for the trace differential -/
def trace (c : Cfg) : State → List Op → List State
  | _, [] => []
  | s, op :: ops => let s' := step c s op; s' :: trace c s' ops


/-! ## text protocol

`engine <spec> <ops>`
  spec = `<wfmaxj>#<stage>#...`, stage = `reqs/JOIN/threshold/cont/failp/enabled/maxj/tasks`,
         tasks = `o.o.o+o.o` (`-` = no tasks), outcome letters as in `harness/engine.py`
  ops  = comma separated: `d<id>` deliver, `x<id>` deliver without mark+ack, `c` cancel,
         `g<s>.<0|1>` signal stage s (persistent?), `k<id>.<n>` crash after n commits, `w` recovery sweep,
         `n<id>.<j1>.<j2>…` deliver RunTask <id> with rows j1, j2… delivered by a second worker while the task executes
  answer = state line after every op joined by `|`, then `|A=<audit>|L=<ledger>` -/

def parseOutcome (s : String) : Option Outcome :=
  match s with
  | "S" => some .succ | "T" => some .terminal | "F" => some .failedContinue | "P" => some .stopped
  | "C" => some .canceled | "K" => some .skipped | "D" => some .redirect | "R" => some .running
  | "U" => some .suspend | "E" => some .transient | "X" => some .permanent
  | _ => if s.startsWith "J" then (Parse.nat? (s.drop 1).toString).map Outcome.jump else none

def optNat? (s : String) : Option (Option Nat) :=
  if s == "-" then some none else (Parse.nat? s).map some

def optInt? (s : String) : Option (Option Int) :=
  if s == "-" then some none else (Parse.int? s).map some

def parseStage8 (reqs join th cont failp en maxj tasks : String) : Option StageCfg := do
  let reqs ← Parse.natList? reqs
  let join ← JoinType.ofName? join
  let threshold ← Parse.int? th
  let cont ← Parse.bool? cont
  let failp ← Parse.bool? failp
  let enabled ← (if en == "-" then some none else (Parse.bool? en).map some)
  let maxj ← optInt? maxj
  let tasks ← (if tasks == "-" then some [] else
    Parse.all? (fun t => Parse.all? parseOutcome (t.splitOn ".")) (tasks.splitOn "+"))
  pure { reqs, join, threshold, cont, failp, enabled, maxj, tasks }

def parseStage (s : String) : Option StageCfg :=
  match s.splitOn "/" with
  | [reqs, join, th, cont, failp, en, maxj, tasks, split] => do
    let base ← parseStage8 reqs join th cont failp en maxj tasks
    let split ← (if split == "-" then some [] else
      Parse.all? (fun kv => match kv.splitOn ":" with
        | [d, b] => do pure ((← Parse.nat? d), (← Parse.bool? b))
        | _ => none) (split.splitOn "."))
    pure { base with split := split }
  | [reqs, join, th, cont, failp, en, maxj, tasks] => parseStage8 reqs join th cont failp en maxj tasks
  | _ => none

def parseCfg (s : String) : Option Cfg :=
  match s.splitOn "#" with
  | wf :: stages => do
    let wfMaxj ← optInt? wf
    let stages ← Parse.all? parseStage stages
    pure { wfMaxj, stages }
  | [] => none

def parseOp (s : String) : Option Op :=
  if s == "c" then some .cancel
  else if s.startsWith "d" then (Parse.nat? (s.drop 1).toString).map Op.deliver
  else if s.startsWith "x" then (Parse.nat? (s.drop 1).toString).map Op.deliverNoAck
  else if s == "w" then some .sweep
  else if s.startsWith "n" then
    match ((s.drop 1).toString).splitOn "." with
    | a :: rest => do pure (.nested (← Parse.nat? a) (← Parse.all? Parse.nat? rest))
    | [] => none
  else if s.startsWith "k" then
    match ((s.drop 1).toString).splitOn "." with
    | [a, b] => do pure (.crash (← Parse.nat? a) (← Parse.nat? b))
    | _ => none
  else if s.startsWith "g" then
    match ((s.drop 1).toString).splitOn "." with
    | [a, b] => do pure (.signal (← Parse.nat? a) (← Parse.bool? b))
    | _ => none
  else none

def showKV (m : KV) : String :=
  if m.isEmpty then "-" else Parse.joinWith "," (m.map (fun kv => s!"{kv.1}:{kv.2}"))

def b01 (b : Bool) : String := if b then "1" else "0"

def showMsg : Msg → String
  | .startWorkflow => "SW"
  | .startStage s r => s!"SS.{s}.{r}"
  | .startTask s t => s!"ST.{s}.{t}"
  | .runTask s t => s!"RT.{s}.{t}"
  | .completeTask s t st => s!"CT.{s}.{t}.{st.name}"
  | .completeStage s => s!"CS.{s}"
  | .skipStage s => s!"SK.{s}"
  | .cancelStage s => s!"XS.{s}"
  | .completeWorkflow r => s!"CW.{r}"
  | .cancelWorkflow => "XW"
  | .jumpToStage a b => s!"JS.{a}.{b}"
  | .signalStage s p => s!"SG.{s}.{b01 p}"

def showStage (i : Nat) (st : StageSt) : String :=
  let tasks := if st.tasks.isEmpty then "-" else
    Parse.joinWith "." (st.tasks.map (fun t => t.status.name ++ (if t.started then "*" else "")))
  let jc := match st.jumpCount with | some n => toString n | none => "-"
  s!"S{i}={st.status.name},v{st.version},st{b01 st.startSet},{tasks},jf{b01 st.joinFired}jb{b01 st.jumpBypass}ex{b01 st.hasEx},cb{Parse.showNats st.completed},jc{jc},bs{st.buffered},d{showKV st.data},o{showKV st.outputs}"

def showState (s : State) : String :=
  let stages := (List.range s.stages.length).map (fun i => showStage i (s.stage i))
  let q := if s.queue.isEmpty then "-" else
    Parse.joinWith "," (s.queue.map (fun r => s!"{r.id}:{showMsg r.msg}/{r.attempts}"))
  let p := Parse.showNats (s.processed.mergeSort (· ≤ ·))
  Parse.joinWith ";" ([s!"W={s.wfStatus.name},{b01 s.canceled}"] ++ stages ++ [s!"Q={q}", s!"P={p}"])

def showEnt : Ent → String
  | .wf => "W" | .stage s => s!"S{s}" | .task s t => s!"T{s}.{t}"

def showAudit (a : List AuditRow) : String :=
  if a.isEmpty then "-" else Parse.joinWith "," (a.map (fun r => s!"{showEnt r.ent}:{r.old.name}>{r.new.name}"))

def showLedger (l : List Exec) : String :=
  if l.isEmpty then "-" else
    Parse.joinWith "," (l.map (fun e =>
      let seen := Parse.joinWith "+" (e.seen.map (fun kv => s!"{kv.1}:{kv.2}"))
      s!"{e.s}.{e.t}.{e.n}[{seen}]"))

/-- `engine dstatus <cont 0|1> <failp 0|1> <current status> <task statuses, comma separated | ->`: the stage-status rule alone
    (`StageExecution.determine_status()` of a stage without synthetic children) -/
def driveDStatus (cont failp cur ts : String) : String :=
  let tsl := if ts == "-" then some [] else Parse.all? Status.ofName? (ts.splitOn ",")
  match Status.ofName? cur, tsl with
  | some cur, some tsl =>
    let sc : StageCfg := { reqs := [], join := default, threshold := 0, cont := cont == "1", failp := failp == "1",
                           enabled := none, maxj := none, tasks := [] }
    (determineStatus sc cur tsl).name
  | _, _ => "bad-request"

def drive (rest : String) : String :=
  match rest.splitOn " " with
  | ["dstatus", cont, failp, cur, ts] => driveDStatus cont failp cur ts
  | [spec, ops] =>
    match parseCfg spec, (if ops == "-" then some [] else Parse.all? parseOp (ops.splitOn ",")) with
    | some c, some ops =>
      let s0 := start c
      let states := trace c s0 ops
      let final := states.getLastD s0
      Parse.joinWith "|" ((s0 :: states).map showState ++ [s!"A={showAudit final.audit}", s!"L={showLedger final.ledger}"])
    | _, _ => "bad-request"
  | _ => "bad-request"

end Stab.Engine
