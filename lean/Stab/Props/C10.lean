/-
  C10 — Recovery sweeps: harmless on healthy workflows, idempotent after a crash.

  `Stab.Engine.sweepMsgs` models `WorkflowRecovery._recover_workflow` (one transaction that only pushes
  messages).  Theorems: what a sweep can and cannot do in ANY state, and that a second sweep right after a
  first one re-queues no task work.  That the pushed StartStage messages are inert or the missing driver
  is the status-guard part of C02/C03; outcome preservation on whole runs is validated by the harness.
-/
import Stab.Lemmas.EngineGood

namespace Stab.Props.C10
open Stab Stab.Engine

/-- A sweep only adds messages: no stage, task or workflow row, no processed mark, no execution. -/
theorem sweep_only_pushes (c : Cfg) (s : State) :
    (step c s .sweep).stages = s.stages ∧ (step c s .sweep).wfStatus = s.wfStatus ∧
    (step c s .sweep).canceled = s.canceled ∧ (step c s .sweep).ledger = s.ledger ∧
    (step c s .sweep).processed = s.processed ∧ (step c s .sweep).audit = s.audit := by
  have key : ∀ (ms : List Msg) (s : State),
      (applyTxn s (ms.map Eff.push)).stages = s.stages ∧ (applyTxn s (ms.map Eff.push)).wfStatus = s.wfStatus ∧
      (applyTxn s (ms.map Eff.push)).canceled = s.canceled ∧ (applyTxn s (ms.map Eff.push)).ledger = s.ledger ∧
      (applyTxn s (ms.map Eff.push)).processed = s.processed ∧ (applyTxn s (ms.map Eff.push)).audit = s.audit := by
    intro ms
    induction ms with
    | nil => intro s; simp [applyTxn]
    | cons m ms ih =>
      intro s
      have := ih (applyEff s (.push m))
      simpa [applyTxn, List.foldl, applyEff] using this
  exact key _ s

/-- the queue after a sweep: the old rows, then one fresh row per swept message -/
theorem sweep_queue (c : Cfg) (s : State) :
    ((step c s .sweep).queue.map (·.msg)) = s.queue.map (·.msg) ++ sweepMsgs c s := by
  have key : ∀ (ms : List Msg) (s : State),
      ((applyTxn s (ms.map Eff.push)).queue.map (·.msg)) = s.queue.map (·.msg) ++ ms := by
    intro ms
    induction ms with
    | nil => intro s; simp [applyTxn]
    | cons m ms ih =>
      intro s
      have := ih (applyEff s (.push m))
      simp only [applyTxn, List.map_cons, List.foldl] at this ⊢
      rw [this]
      simp [applyEff]
  exact key _ s

/-- what one re-queued stage contributes: RunTask only for RUNNING tasks of a RUNNING stage, StartTask only for the
    first NOT_STARTED task of a RUNNING stage with no RUNNING task, both only when NO message for that task is
    queued; otherwise a StartStage.  Nothing else. -/
theorem sweepStage_guarded (s : State) (i : Nat) (m : Msg) (hm : m ∈ sweepStage s i) :
    (∃ t, m = .runTask i t ∧ (s.stage i).status = .running ∧ ((s.stage i).tasks.getD t default).status = .running ∧
          hasPendingForTask s i t = false) ∨
    (∃ t, m = .startTask i t ∧ (s.stage i).status = .running ∧ ((s.stage i).tasks.getD t default).status = .notStarted ∧
          hasPendingForTask s i t = false) ∨
    m = .startStage i 0 := by
  unfold sweepStage at hm
  simp only [] at hm
  split at hm
  · rename_i hrun
    have hrun' : (s.stage i).status = .running := by simpa using hrun
    split at hm
    · simp only [List.mem_map, List.mem_filter, List.mem_range] at hm
      obtain ⟨t, ⟨⟨_, ht⟩, hp⟩, rfl⟩ := hm
      exact Or.inl ⟨t, rfl, hrun', by simpa using ht, by simpa using hp⟩
    · split at hm
      · split at hm
        · rename_i t hhead
          split at hm
          · cases hm
          · rename_i hp
            simp only [List.mem_singleton] at hm; subst hm
            have hmem := List.mem_of_mem_head? hhead
            simp only [List.mem_filter, List.mem_range] at hmem
            exact Or.inr (Or.inl ⟨t, rfl, hrun', by simpa using hmem.2, by simpa using hp⟩)
        · cases hm
      · simp only [List.mem_singleton] at hm; exact Or.inr (Or.inr hm)
  · simp only [List.mem_singleton] at hm; exact Or.inr (Or.inr hm)

/-- **A sweep pushes only guarded messages** (in ANY state): StartWorkflow / StartStage, or a task message for a
    task that has no message in the queue.  Never a completion, cancel, skip or jump message. -/
theorem sweep_pushes_only_guarded (c : Cfg) (s : State) (m : Msg) (hm : m ∈ sweepMsgs c s) :
    m = .startWorkflow ∨ ∃ i, m ∈ sweepStage s i := by
  unfold sweepMsgs at hm
  simp only [] at hm
  split at hm
  · cases hm
  · split at hm
    · split at hm
      · simp only [List.mem_singleton] at hm; exact Or.inl hm
      · cases hm
    · simp only [List.mem_flatMap] at hm
      obtain ⟨i, _, hi⟩ := hm
      exact Or.inr ⟨i, hi⟩

/-- the per-stage contribution depends on the state only through that stage's row and the pending-message guard;
    with more messages pending it can only shrink to the ones whose task has no pending message -/
theorem sweepStage_after (s s' : State) (i : Nat) (hst : s'.stage i = s.stage i)
    (m : Msg) (hm : m ∈ sweepStage s' i) :
    m ∈ sweepStage s i ∨ m = .startStage i 0 ∨
      (∃ t, (m = .runTask i t ∨ m = .startTask i t) ∧ hasPendingForTask s i t = true) := by
  unfold sweepStage at hm ⊢
  simp only [hst] at hm ⊢
  split
  · rename_i hrun
    simp only [hrun, ↓reduceIte] at hm
    split
    · rename_i hr
      simp only [hr, ↓reduceIte, List.mem_map, List.mem_filter] at hm ⊢
      obtain ⟨t, ⟨ht, hp'⟩, rfl⟩ := hm
      by_cases hp : hasPendingForTask s i t = true
      · exact Or.inr (Or.inr ⟨t, Or.inl rfl, hp⟩)
      · exact Or.inl ⟨t, ⟨ht, by simpa using hp⟩, rfl⟩
    · rename_i hr
      simp only [hr, Bool.false_eq_true, ↓reduceIte] at hm
      split
      · rename_i hn
        simp only [hn, ↓reduceIte] at hm
        split
        · rename_i t hhead
          simp only [hhead] at hm
          split at hm
          · cases hm
          · simp only [List.mem_singleton] at hm; subst hm
            by_cases hp : hasPendingForTask s i t = true
            · exact Or.inr (Or.inr ⟨t, Or.inr rfl, hp⟩)
            · left; simp [hp]
        · rename_i hhead
          simp only [hhead] at hm
          cases hm
      · rename_i hn
        simp only [hn, Bool.false_eq_true, ↓reduceIte, List.mem_singleton] at hm
        exact Or.inr (Or.inl hm)
  · rename_i hrun
    simp only [hrun, Bool.false_eq_true, ↓reduceIte, List.mem_singleton] at hm
    exact Or.inr (Or.inl hm)

/-- **Second sweep right after the first re-queues no task work**: every RunTask / StartTask the first sweep
    pushed — or skipped because a message was already queued — is pending now, so `has_pending_message_for_task`
    suppresses it.  Only StartStage / StartWorkflow can be pushed twice; their handlers' status guards and the claim
    CAS absorb them (C02/C03/C04). -/
theorem sweep_twice_no_task_messages (c : Cfg) (s : State) (m : Msg)
    (hm : m ∈ sweepMsgs c (step c s .sweep)) : (∀ i t, m ≠ .runTask i t) ∧ (∀ i t, m ≠ .startTask i t) := by
  have h1 := sweep_only_pushes c s
  have hq := sweep_queue c s
  have hstage : ∀ i, (step c s .sweep).stage i = s.stage i := by intro i; simp [State.stage, h1.1]
  have inq : ∀ m', m' ∈ s.queue.map (·.msg) ++ sweepMsgs c s → ∃ r ∈ (step c s .sweep).queue, r.msg = m' := by
    intro m' h
    rw [← hq] at h
    obtain ⟨r, hr, he⟩ := List.mem_map.mp h
    exact ⟨r, hr, he⟩
  have pend_mono : ∀ i t, hasPendingForTask s i t = true → hasPendingForTask (step c s .sweep) i t = true := by
    intro i t h
    unfold hasPendingForTask at h ⊢
    simp only [List.any_eq_true] at h ⊢
    obtain ⟨r, hr, hr'⟩ := h
    obtain ⟨r2, hr2, he⟩ := inq r.msg (List.mem_append_left _ (List.mem_map_of_mem hr))
    exact ⟨r2, hr2, by rw [he]; exact hr'⟩
  have pushed_pending : ∀ i t, (.runTask i t ∈ sweepMsgs c s ∨ .startTask i t ∈ sweepMsgs c s) →
      hasPendingForTask (step c s .sweep) i t = true := by
    intro i t h
    unfold hasPendingForTask
    simp only [List.any_eq_true]
    rcases h with h | h
    · obtain ⟨r2, hr2, he⟩ := inq _ (List.mem_append_right _ h)
      exact ⟨r2, hr2, by rw [he]; simp⟩
    · obtain ⟨r2, hr2, he⟩ := inq _ (List.mem_append_right _ h)
      exact ⟨r2, hr2, by rw [he]; simp⟩
  -- where does `m` come from in the second sweep?
  have hsrc : m = .startWorkflow ∨ ∃ i, i ∈ sweepRequeue c (step c s .sweep) ∧ m ∈ sweepStage (step c s .sweep) i := by
    unfold sweepMsgs at hm
    simp only [] at hm
    split at hm
    · cases hm
    · split at hm
      · split at hm
        · simp only [List.mem_singleton] at hm; exact Or.inl hm
        · cases hm
      · simp only [List.mem_flatMap] at hm
        obtain ⟨i, hi1, hi2⟩ := hm
        exact Or.inr ⟨i, hi1, hi2⟩
  rcases hsrc with rfl | ⟨i, hreq, hmi⟩
  · constructor <;> intro i t h <;> cases h
  · -- `m` is a task message of stage i in the second sweep: the guard says nothing is pending for it …
    have hg := sweepStage_guarded (step c s .sweep) i m hmi
    -- … but the first sweep already covered that task
    have hreq1 : i ∈ sweepRequeue c s := by
      unfold sweepRequeue at hreq ⊢
      simp only [List.mem_filter] at hreq ⊢
      refine ⟨hreq.1, ?_⟩
      have : canStart c (step c s .sweep) i = canStart c s i := by
        unfold canStart; simp only [hstage]
      simpa [hstage, this] using hreq.2
    have hwf : ¬ ((!(s.wfStatus == .running || s.wfStatus == .notStarted)) = true) := by
      intro hw
      unfold sweepMsgs at hm
      simp only [h1.2.1, hw, ↓reduceIte] at hm
      cases hm
    have first_has : ∀ m', m' ∈ sweepStage s i → m' ∈ sweepMsgs c s := by
      intro m' hm'
      unfold sweepMsgs
      simp only [hwf, ↓reduceIte]
      have hne : (sweepRequeue c s).isEmpty = false := by
        cases hr : sweepRequeue c s with
        | nil => rw [hr] at hreq1; cases hreq1
        | cons _ _ => rfl
      simp only [hne, Bool.false_eq_true, ↓reduceIte, List.mem_flatMap]
      exact ⟨i, hreq1, hm'⟩
    have contra : ∀ t, (m = .runTask i t ∨ m = .startTask i t) → hasPendingForTask (step c s .sweep) i t = false → False := by
      intro t hmt hfalse
      rcases sweepStage_after s (step c s .sweep) i (hstage i) m hmi with h | h | ⟨t', ht', hp⟩
      · have := first_has m h
        have hp := pushed_pending i t (by rcases hmt with rfl | rfl; exact Or.inl this; exact Or.inr this)
        rw [hp] at hfalse; cases hfalse
      · rcases hmt with rfl | rfl <;> cases h
      · have : t' = t := by rcases hmt with rfl | rfl <;> rcases ht' with h | h <;> cases h <;> rfl
        subst this
        rw [pend_mono i t' hp] at hfalse; cases hfalse
    refine ⟨?_, ?_⟩
    · intro i' t' h
      rcases hg with ⟨t, hmt, _, _, hp⟩ | ⟨t, hmt, _, _, _⟩ | hmt
      · exact contra t (Or.inl hmt) hp
      · rw [hmt] at h; cases h
      · rw [hmt] at h; cases h
    · intro i' t' h
      rcases hg with ⟨t, hmt, _, _, _⟩ | ⟨t, hmt, _, _, hp⟩ | hmt
      · rw [hmt] at h; cases h
      · exact contra t (Or.inr hmt) hp
      · rw [hmt] at h; cases h

/-- a sweep never runs a task and never changes a status: the ledger and the audit trail are untouched, so a
    sweep by itself "makes no task execute an extra time"; extra executions could only come from the messages it
    pushes, and those are guarded as stated above -/
theorem sweep_no_execution_no_write (c : Cfg) (s : State) :
    (step c s .sweep).ledger = s.ledger ∧ (step c s .sweep).audit = s.audit :=
  ⟨(sweep_only_pushes c s).2.2.2.1, (sweep_only_pushes c s).2.2.2.2.2⟩

-- non-vacuity: after a crash between StartTask's commit and its ack nothing is pending for the RUNNING task … a sweep
-- re-queues exactly one RunTask, a second sweep nothing
def demoStage : StageCfg :=
  { reqs := [], join := JoinType.and, threshold := 0, cont := false, failp := true, enabled := none,
    maxj := none, tasks := [[Outcome.succ]] }
def demoCfg : Cfg := { wfMaxj := none, stages := [demoStage] }
def lostRunTask : State :=
  ackRow (run demoCfg [Op.deliver 1, Op.deliver 2, Op.deliver 3]) 4   -- the RunTask row is lost

example : sweepMsgs demoCfg lostRunTask = [Msg.runTask 0 0] := by decide
example : sweepMsgs demoCfg (step demoCfg lostRunTask .sweep) = [] := by decide

end Stab.Props.C10
