/- Property theorems for C10 — to be filled in. -/
namespace Stab.Props.C10
end Stab.Props.C10
