/- Property theorems for C11 — to be filled in. -/
namespace Stab.Props.C11
end Stab.Props.C11
