/-
  C11 — a mutex admits one running stage; a deferred choice has exactly one winner.

  Model: `Stab.Claims` (Model/Claims.lean) — the code with fixes b2e8739 (F30: a mutex claim whose owner was re-armed by a jump
  can be taken over) and 9adf23a (F31: the retention sweep keeps claims whose owner stage is live).  All theorems quantify over
  every stage list (any number of stages, any assignment of mutex keys / choice groups) and EVERY sequence of operations —
  stale fast-path reads (`peekM`/`peekC` … `claim`), atomic starts, finishes, cancels, parking, jump re-arms, `endWorkflow`
  attempts and retention sweeps at arbitrary points.

  Mutex (unconditional, also for executions that already became terminal):
    `mutex_owner_invariant` ⇒ `mutex_exclusive`; `sweep_keeps_live_claims`;
    `mutex_progress` (no live stage with the key ⇒ a delivered waiter starts: holder complete, holder re-armed by a jump,
    key never taken), with the special cases `mutex_progress_holder_complete` / `mutex_progress_free`.
  Deferred choice (for executions that are not terminal — `(run …).wfTerminal = false`; the flag is monotone, so this covers
  every prefix; the last `example` shows why the hypothesis is needed):
    `choice_single_winner`, `start_is_logged`, `winner_cancels_siblings`, `loser_cancels_self`.
  Sweep: `sweep_only_terminal_executions`, `sweeps_are_noops_while_live`.

  LEGACY (about the code BEFORE fix b2e8739, `fixSteal = false`; kept as the regression witness of finding F30):
    `legacy_rearm_deadlock_before_fix`.  The F31 witnesses (sweep of a terminal execution freeing a live holder's claim)
    are gone with the old sweep; the same op lists are now `example`s of exclusiveness.
-/
import Stab.Lemmas.Claims

namespace Stab.Props.C11
open Stab Stab.Claims

/-- **mutex_owner_invariant.** A RUNNING / SUSPENDED / PAUSED stage with mutex key k owns the claim row of k. -/
theorem mutex_owner_invariant (f : Bool) (stages : List Stage) (ops : List Op) (i : Nat) (g : Stage) (k : Nat)
    (hi : (run (init f stages) ops).stages[i]? = some g) (hl : live g.status = true) (hm : g.mutex = some k) :
    getC (run (init f stages) ops).claims (.mutex k) = some i :=
  (run_inv (init_inv f stages) ops).owner i g k hi hl hm

/-- **mutex_exclusive.** Never two live stages with one key — whatever happened before, including the execution having become
    terminal and sweeps having run. -/
theorem mutex_exclusive (f : Bool) (stages : List Stage) (ops : List Op) (i j : Nat) (gi gj : Stage) (k : Nat)
    (hi : (run (init f stages) ops).stages[i]? = some gi) (hj : (run (init f stages) ops).stages[j]? = some gj)
    (hli : live gi.status = true) (hlj : live gj.status = true) (hmi : gi.mutex = some k) (hmj : gj.mutex = some k) :
    i = j := by
  have a := mutex_owner_invariant f stages ops i gi k hi hli hmi
  have b := mutex_owner_invariant f stages ops j gj k hj hlj hmj
  rw [a] at b; exact Option.some.inj b

/-- **choice_single_winner.** While the execution is not terminal: of one deferred-choice group at most one stage ever commits NOT_STARTED → RUNNING
    (`started` logs every such commit; the same stage may start again after a re-arm). -/
theorem choice_single_winner (f : Bool) (stages : List Stage) (ops : List Op)
    (hend : (run (init f stages) ops).wfTerminal = false) (i j : Nat) (gi gj : Stage) (c : Nat)
    (hi : i ∈ (run (init f stages) ops).started) (hj : j ∈ (run (init f stages) ops).started)
    (hgi : (run (init f stages) ops).stages[i]? = some gi) (hgj : (run (init f stages) ops).stages[j]? = some gj)
    (hci : gi.group = some c) (hcj : gj.group = some c) : i = j := by
  have inv := run_inv (init_inv f stages) ops
  have a := inv.winner hend i gi c hi hgi hci
  have b := inv.winner hend j gj c hj hgj hcj
  rw [a] at b; exact Option.some.inj b

/-- the two shapes of a `_start_if_ready` outcome: nothing about the stages changed, or stage `i` went RUNNING and was logged -/
theorem claimWith_cases (s : St) (i : Nat) (mb cc : Bool) :
    (claimWith s i mb cc).1.stages = s.stages ∨
    (∃ g : Stage, s.stages[i]? = some g ∧ g.status = .notStarted ∧
      (claimWith s i mb cc).1.stages = s.stages.set i { g with status := .running } ∧
      (claimWith s i mb cc).1.started = i :: s.started ∧ (claimWith s i mb cc).2 = .started ∧
      ∃ s' : St, s'.stages = s.stages.set i { g with status := .running } ∧
        (claimWith s i mb cc).1.cancelQ = s.cancelQ ++ losers s' i) := by
  unfold claimWith
  cases hgi : s.stages[i]? with
  | none => exact Or.inl rfl
  | some gi =>
    simp only
    split
    · exact Or.inl rfl
    · rename_i hns
      split
      · exact Or.inl rfl
      · split
        · exact Or.inl rfl
        · split
          · exact Or.inl rfl
          · split
            · exact Or.inl rfl
            · exact Or.inr ⟨gi, rfl, by simpa using hns, rfl, rfl, rfl, _, rfl, rfl⟩

/-- only the claim transaction moves a stage NOT_STARTED → RUNNING, and it logs it -/
theorem start_is_logged (s : St) (i : Nat) (mb cc : Bool) (j : Nat) (g g' : Stage)
    (hg : s.stages[j]? = some g) (hg' : (claimWith s i mb cc).1.stages[j]? = some g')
    (hns : g.status = .notStarted) (hr : g'.status = .running) :
    j = i ∧ (claimWith s i mb cc).1.started = i :: s.started ∧ (claimWith s i mb cc).2 = .started := by
  rcases claimWith_cases s i mb cc with h | ⟨gi, hgi, _, hst, hlog, hout, _⟩
  · rw [h, hg] at hg'; cases hg'; rw [hns] at hr; cases hr
  · rw [hst, List.getElem?_set] at hg'
    split at hg'
    · rename_i e; exact ⟨e.symm, hlog, hout⟩
    · rw [hg] at hg'; cases hg'; rw [hns] at hr; cases hr

/-- **choice_losers_canceled (1).** The winner's start pushes a CancelStage for every sibling still NOT_STARTED. -/
theorem winner_cancels_siblings (s : St) (i : Nat) (mb cc : Bool) (hst : (claimWith s i mb cc).2 = .started)
    (g gj : Stage) (c j : Nat) (hg : s.stages[i]? = some g) (hc : g.group = some c) (hne : j ≠ i)
    (hj : s.stages[j]? = some gj) (hcj : gj.group = some c) (hns : gj.status = .notStarted) :
    j ∈ (claimWith s i mb cc).1.cancelQ := by
  have hjl : j < s.stages.length := by
    rcases Nat.lt_or_ge j s.stages.length with hl | hl
    · exact hl
    · rw [List.getElem?_eq_none hl] at hj; cases hj
  have hil : i < s.stages.length := by
    rcases Nat.lt_or_ge i s.stages.length with hl | hl
    · exact hl
    · rw [List.getElem?_eq_none hl] at hg; cases hg
  rcases claimWith_cases s i mb cc with h | ⟨gi, hgi, _, _, _, _, s', hs', hq⟩
  · -- nothing changed: then the outcome was not `started`
    exfalso
    revert hst
    unfold claimWith
    simp only [hg]
    split
    · simp
    · split
      · simp
      · split
        · simp
        · split
          · simp
          · split
            · simp
            · rename_i cs2 _
              intro _
              have : (s.stages.set i { g with status := .running })[i]? = s.stages[i]? := by
                have := h; unfold claimWith at this; simp only [hg] at this
                simp_all
              rw [List.getElem?_set, hg] at this
              simp [hil] at this
              have hns' : g.status = .running := by rw [← this]
              simp_all
  · rw [hg] at hgi; cases hgi
    rw [hq, List.mem_append]
    right
    simp only [losers, hs', List.getElem?_set, hil, if_true, List.length_set, hc]
    simp only [List.mem_filter, List.mem_range, Bool.and_eq_true, bne_iff_ne, ne_eq]
    refine ⟨hjl, hne, ?_⟩
    simp [Ne.symm hne, hj, hcj, hns]

/-- **choice_losers_canceled (2).** Once the group's claim row belongs to somebody else, a delivered StartStage of a
    NOT_STARTED member can only push a CancelStage for itself — whatever its (possibly stale) fast-path read said. -/
theorem loser_cancels_self (s : St) (u w c : Nat) (g : Stage) (cc : Bool)
    (hg : s.stages[u]? = some g) (hns : g.status = .notStarted) (hm : g.mutex = none) (hc : g.group = some c)
    (hown : getC s.claims (.choice c) = some w) (hne : w ≠ u) :
    (claimWith s u false cc).2 = .cancelSelf ∧ u ∈ (claimWith s u false cc).1.cancelQ ∧
      (claimWith s u false cc).1.stages = s.stages ∧ (claimWith s u false cc).1.claims = s.claims := by
  unfold claimWith
  simp only [hg, hns, hm, hc, ne_eq, not_true_eq_false, if_false, Bool.false_eq_true, Option.isSome_some, Bool.true_and]
  cases cc
  · simp [acquire, hown, hne]
  · simp

theorem not_blocked_of_no_running {s : St} {t : Nat}
    (h : ∀ (j : Nat) (gj : Stage) (g : Stage) (k : Nat), s.stages[t]? = some g → g.mutex = some k → j ≠ t → s.stages[j]? = some gj →
        gj.mutex = some k → gj.status ≠ .running) : mutexBlocked s t = false := by
  unfold mutexBlocked
  cases hg : s.stages[t]? with
  | none => rfl
  | some g =>
    simp only
    cases hm : g.mutex with
    | none => rfl
    | some k =>
      simp only
      rw [Bool.eq_false_iff]
      intro hany
      rw [List.any_eq_true] at hany
      obtain ⟨j, _, hj⟩ := hany
      simp only [Bool.and_eq_true, bne_iff_ne, ne_eq] at hj
      obtain ⟨hne, hj2⟩ := hj
      cases hgj : s.stages[j]? with
      | none => rw [hgj] at hj2; cases hj2
      | some gj =>
        rw [hgj] at hj2
        simp only [Bool.and_eq_true, beq_iff_eq] at hj2
        exact h j gj g k hg hm hne hgj hj2.1 hj2.2

/-- **mutex_progress, holder complete (steal path).** If the holder of key k is complete and the waiter's StartStage is
    delivered, the waiter acquires the key and starts (holds with and without fix b2e8739). -/
theorem mutex_progress_holder_complete (s : St) (hinv : Inv s) (t o k : Nat) (g : Stage) (st : Status)
    (hg : s.stages[t]? = some g) (hns : g.status = .notStarted) (hm : g.mutex = some k) (hc : g.group = none)
    (hown : getC s.claims (.mutex k) = some o) (hst : statusOf s o = some st) (hcomp : st.isComplete = true) :
    (step s (.tryStart t)).2 = .started ∧ getC (step s (.tryStart t)).1.claims (.mutex k) = some t := by
  have hnb : mutexBlocked s t = false := by
    apply not_blocked_of_no_running
    intro j gj g' k' hg' hm' hne hgj hmj hrun
    rw [hg] at hg'; cases hg'; rw [hm] at hm'; cases hm'
    have := hinv.owner j gj k hgj (by rw [hrun]; rfl) hmj
    rw [hown] at this; cases this
    unfold statusOf at hst; rw [hgj] at hst; simp at hst; rw [hrun] at hst; subst hst; cases hcomp
  simp only [step, claimWith, hg, hns, hnb, hm, hc, ne_eq, not_true_eq_false, if_false, Bool.false_eq_true, Option.isSome_none, Bool.false_and]
  by_cases e : o = t
  · subst e; simp [acquire, hown]
  · simp [acquire, hown, e, hst, hcomp, getC_setC_eq]

/-- … and if nobody ever held the key the waiter simply takes it -/
theorem mutex_progress_free (s : St) (hinv : Inv s) (t k : Nat) (g : Stage)
    (hg : s.stages[t]? = some g) (hns : g.status = .notStarted) (hm : g.mutex = some k) (hc : g.group = none)
    (hown : getC s.claims (.mutex k) = none) :
    (step s (.tryStart t)).2 = .started ∧ getC (step s (.tryStart t)).1.claims (.mutex k) = some t := by
  have hnb : mutexBlocked s t = false := by
    apply not_blocked_of_no_running
    intro j gj g' k' hg' hm' hne hgj hmj hrun
    rw [hg] at hg'; cases hg'; rw [hm] at hm'; cases hm'
    have := hinv.owner j gj k hgj (by rw [hrun]; rfl) hmj
    rw [hown] at this; cases this
  simp [step, claimWith, hg, hns, hnb, hm, hc, acquire, hown, getC_setC_eq]

/-- **mutex_progress.** Whenever no stage with key k is live, a delivered StartStage of a NOT_STARTED stage with key k starts
    it — in every state satisfying the invariant (= every reachable state, `reachable_inv`), after any number of jump re-arms. -/
theorem mutex_progress (s : St) (hinv : Inv s) (hfix : s.fixSteal = true) (t k : Nat) (g : Stage)
    (hg : s.stages[t]? = some g) (hns : g.status = .notStarted) (hm : g.mutex = some k) (hc : g.group = none)
    (hfree : ∀ (j : Nat) (gj : Stage), s.stages[j]? = some gj → gj.mutex = some k → live gj.status = false) :
    (step s (.tryStart t)).2 = .started ∧ getC (step s (.tryStart t)).1.claims (.mutex k) = some t := by
  have hnb : mutexBlocked s t = false := by
    apply not_blocked_of_no_running
    intro j gj g' k' hg' hm' hne hgj hmj hrun
    rw [hg] at hg'; cases hg'; rw [hm] at hm'; cases hm'
    have := hfree j gj hgj hmj
    rw [hrun] at this; cases this
  cases hown : getC s.claims (.mutex k) with
  | none => exact mutex_progress_free s hinv t k g hg hns hm hc hown
  | some o =>
    simp only [step, claimWith, hg, hns, hnb, hm, hc, ne_eq, not_true_eq_false, if_false, Bool.false_eq_true, Option.isSome_none, Bool.false_and]
    by_cases e : o = t
    · subst e; simp [acquire, hown]
    · obtain ⟨go, hgo, hmo⟩ := hinv.claimKey k o (getC_mem hown)
      have hnl := hfree o go hgo hmo
      have hso : statusOf s o = some go.status := by unfold statusOf; rw [hgo]; rfl
      have hsteal : (go.status.isComplete || (s.fixSteal && go.status == .notStarted)) = true := by
        rcases hinv.stat o go hgo with h1 | h1 | h1
        · simp [h1, hfix]
        · rw [h1] at hnl; cases hnl
        · simp [h1]
      simp [acquire, hown, e, hso, hsteal, getC_setC_eq]

/-- **sweep_only_terminal_executions.** The retention sweep never touches the claims of an execution that is not terminal. -/
theorem sweep_only_terminal_executions (s : St) (h : s.wfTerminal = false) : step s .sweep = (s, .noop) := by
  simp [step, h]

/-- … hence sweeps at arbitrary points of a live execution are harmless: `mutex_exclusive` above already quantifies over
    them.  This is the explicit form: dropping every sweep from the schedule does not change the outcome. -/
theorem sweeps_are_noops_while_live (s : St) (ops : List Op) (hend : (run s ops).wfTerminal = false) :
    run s (ops.filter (· ≠ .sweep)) = run s ops := by
  induction ops generalizing s with
  | nil => rfl
  | cons o rest ih =>
    have hwf : s.wfTerminal = false := by
      cases e : s.wfTerminal with
      | false => rfl
      | true => rw [run_wf_mono s (o :: rest) e] at hend; cases hend
    by_cases ho : o = .sweep
    · subst ho
      have hs : (step s .sweep).1 = s := by rw [sweep_only_terminal_executions s hwf]
      simp only [List.filter, ne_eq, not_true_eq_false, decide_false]
      rw [run_cons, hs] at hend
      rw [ih s hend, run_cons, hs]
    · simp only [List.filter, ne_eq, ho, not_false_eq_true, decide_true]
      rw [run_cons] at hend ⊢
      rw [run_cons]
      exact ih _ hend

/-- every reachable state satisfies the invariant the progress theorems ask for -/
theorem reachable_inv (f : Bool) (stages : List Stage) (ops : List Op) : Inv (run (init f stages) ops) :=
  run_inv (init_inv f stages) ops

/-- **mutex_progress after a jump re-arm**, end to end: whatever happened before, once no stage with key k is live a delivered
    StartStage of a NOT_STARTED stage with that key starts it. -/
theorem mutex_progress_reachable (stages : List Stage) (ops : List Op) (t k : Nat) (g : Stage)
    (hg : (run (init true stages) ops).stages[t]? = some g) (hns : g.status = .notStarted) (hm : g.mutex = some k) (hc : g.group = none)
    (hfree : ∀ (j : Nat) (gj : Stage), (run (init true stages) ops).stages[j]? = some gj → gj.mutex = some k → live gj.status = false) :
    (step (run (init true stages) ops) (.tryStart t)).2 = .started := by
  have hfix : (run (init true stages) ops).fixSteal = true := by rw [run_fix]; rfl
  exact (mutex_progress _ (reachable_inv true stages ops) hfix t k g hg hns hm hc hfree).1

/-- **sweep_keeps_live_claims.** A retention sweep at any point, terminal execution or not, leaves every live stage the owner of
    its key's claim row. -/
theorem sweep_keeps_live_claims (s : St) (hinv : Inv s) (i : Nat) (g : Stage) (k : Nat)
    (hi : s.stages[i]? = some g) (hl : live g.status = true) (hm : g.mutex = some k) :
    getC (step s .sweep).1.claims (.mutex k) = some i := by
  have h' := (step_inv hinv .sweep).owner i g k
  have hst : (step s .sweep).1.stages = s.stages := by simp only [step]; split <;> rfl
  rw [hst] at h'
  exact h' hi hl hm

/-! ### legacy: the code before fix b2e8739 (finding F30) -/

def twoMutex : List Stage := [{ mutex := some 0 }, { mutex := some 0 }]

/-- **LEGACY — about the code BEFORE fix b2e8739 (`fixSteal = false`).** `t`(0) and `s`(1) share a key; `t` runs and finishes,
    `s` takes the key over and runs, then a jump re-arms both (retry loop `t → s`, `s` jumps back to `t`).  Nobody is live,
    yet `StartStage(t)` was re-queued and changed nothing — forever.  Regression witness of replays/C11/f30-*.json. -/
theorem legacy_rearm_deadlock_before_fix :
    let s := run (init false twoMutex) [.tryStart 0, .finish 0 .succeeded, .tryStart 1, .reset 1, .reset 0]
    s.wfTerminal = false ∧ s.stages.all (fun g => !live g.status) = true ∧ getC s.claims (.mutex 0) = some 1 ∧
      (step s (.tryStart 0)).2 = .requeued ∧ (step s (.tryStart 0)).1.stages = s.stages ∧ (step s (.tryStart 0)).1.claims = s.claims := by
  decide

/-- the same state in the code as it is now: `t` starts -/
theorem rearm_progress_example :
    let s := run (init true twoMutex) [.tryStart 0, .finish 0 .succeeded, .tryStart 1, .reset 1, .reset 0]
    (step s (.tryStart 0)).2 = .started := by
  decide

/-! ### non-vacuity -/

/-- both siblings pass the fast path before either claims (the race of test_mutex_deferred_choice_race): one starts, the
    other is re-queued; after the holder finishes the re-delivered waiter steals the key -/
example :
    let r := runOut (init false twoMutex) [.peekM 0, .peekM 1, .claim 0, .claim 1, .finish 0 .succeeded, .tryStart 1]
    r.2 = [.ok, .ok, .started, .requeued, .ok, .started] ∧ getC r.1.claims (.mutex 0) = some 1 ∧ r.1.wfTerminal = false := by
  decide

/-- three members of one group racing past the fast path: one winner, two cancel themselves, delivering the cancels ends them CANCELED -/
example :
    let r := runOut (init false [{ group := some 0 }, { group := some 0 }, { group := some 0 }])
      [.peekC 0, .peekC 1, .peekC 2, .claim 1, .claim 0, .claim 2, .sweep, .cancelLosers]
    r.2 = [.ok, .ok, .ok, .started, .cancelSelf, .cancelSelf, .noop, .ok] ∧
      r.1.stages.map (·.status) = [.canceled, .running, .canceled] ∧ r.1.started = [1] ∧ r.1.wfTerminal = false := by
  decide

/-- the hypotheses of `mutex_progress` are satisfiable in a reachable state -/
example :
    let s := run (init false twoMutex) [.tryStart 0, .tryStart 1, .finish 0 .succeeded]
    getC s.claims (.mutex 0) = some 0 ∧ statusOf s 0 = some .succeeded ∧ statusOf s 1 = some .notStarted ∧ s.wfTerminal = false := by
  decide

/-- the op lists that used to break exclusiveness (finding F31: sweep of a terminal execution) now keep it: the live holder's
    claim survives the sweep and the waiter is re-queued -/
example :
    let r := runOut (init true [{ mutex := some 0 }, { mutex := some 0 }, {}])
      [.tryStart 0, .park 0 .suspended, .cancel 2, .endWorkflow, .sweep, .tryStart 1, .unpark 0]
    r.1.wfTerminal = true ∧ r.1.stages.map (·.status) = [.running, .notStarted, .canceled] ∧ getC r.1.claims (.mutex 0) = some 0 ∧
      r.2 = [.started, .ok, .ok, .ok, .ok, .requeued, .ok] := by
  decide

example :
    let s := run (init true [{ mutex := some 0 }, { mutex := some 0 }, {}])
      [.peekM 0, .peekM 1, .claim 0, .cancel 2, .endWorkflow, .sweep, .claim 1]
    s.wfTerminal = true ∧ s.stages.map (·.status) = [.running, .notStarted, .canceled] := by
  decide

/-- why `choice_single_winner` speaks about executions that are not terminal: once the execution is terminal the sweep may drop the
    claim row of a FINISHED winner, and a member whose fast-path read predates everything could still claim (nothing should start
    in a terminal execution at all — that is C17's subject, not this property's) -/
example :
    let s := run (init true [{ group := some 0 }, { group := some 0 }, { group := some 0 }])
      [.peekC 2, .tryStart 0, .finish 0 .succeeded, .cancel 1, .endWorkflow, .sweep, .claim 2]
    s.wfTerminal = true ∧ s.started = [2, 0] := by
  decide

end Stab.Props.C11
