/-
  C04 — a stage starts exactly once even when workers race.

  Model: `Stab.ClaimProtocol` (Model/ClaimProtocol.lean): any number of StartStage(j) handlers, CompleteStage(uᵢ)
  handlers (with their `_update_join_tracking` write into j) and persistent-SignalStage(j) handlers, interleaved by an
  ARBITRARY schedule at the granularity of single reads / whole transactions.  All theorems quantify over every
  configuration (join type, threshold, predefined tasks or not, fix applied or not unless stated), every list of
  upstream rows, every list of workers at their initial program counter and every schedule.

  The code is modelled with `fix = true` (the default): fix 03375b7 (finding F6) — a StartStage handler that loses its claim or
  plan CAS to a non-claim write re-reads the row and retries instead of dropping the message.

  Safety (any `fix`): `claim_unique`, `plan_unique`, `tasks_started_once`, `plan_needs_claim`, `join_fired_once`,
    `fired_blocks_later_start`, `downstream_triggered_once`, `pushed_is_succeeded`, `zombie_takeover_single_plan` (example).
  Progress — the main statement:
    `someone_plans`                    — unconditional: all handlers done ∧ one went for the claim ⇒ exactly one plan committed.
  LEGACY (about the code BEFORE fix 03375b7, `fix = false`; kept as regression witnesses of replays/C04/f6*.json):
    `someone_plans_undisturbed`        — what was true then: only if no non-claim write hit the row while a StartStage handler was
                                         between its row read and its plan commit (still true now, for any `fix`);
    `legacy_someone_plans_counterexample_*`, `legacy_someone_plans_false_before_fix` — the unrestricted statement was FALSE.
-/
import Stab.Lemmas.ClaimProtocol

namespace Stab.Props.C04
open Stab Stab.ClaimProtocol

/-- legal initial configuration: no StartStage(j) batch pushed yet, every worker at its initial program counter -/
def Initial (ups : List URow) (ws : List W) : Prop :=
  (∀ u ∈ ups, u.pushes = 0) ∧ (∀ w ∈ ws, w.isInitial = true)

theorem reach_inv (c : Cfg) {ups : List URow} {ws : List W} (h : Initial ups ws) (sched : List Nat) :
    Inv (run (init c ups ws) sched) :=
  run_inv (init_inv c ups ws h.1 h.2) sched

/-- **claim_unique.** In every interleaving at most one claim transaction commits the NOT_STARTED → RUNNING change. -/
theorem claim_unique (c : Cfg) {ups : List URow} {ws : List W} (h : Initial ups ws) (sched : List Nat) :
    (run (init c ups ws) sched).claimCommits ≤ 1 := by
  have := (reach_inv c h sched).jok.claims
  split at this <;> omega

/-- **plan_unique.** At most one plan transaction commits — including every zombie take-over interleaving
    (RUNNING → RUNNING re-claims are counted in `reclaimCommits`, not bounded, and never yield a second plan). -/
theorem plan_unique (c : Cfg) {ups : List URow} {ws : List W} (h : Initial ups ws) (sched : List Nat) :
    (run (init c ups ws) sched).planCommits ≤ 1 := by
  have := (reach_inv c h sched).jok.plans
  split at this <;> omega

/-- **tasks_started_once.** StartTask is pushed exactly as often as a plan commits, hence at most once. -/
theorem tasks_started_once (c : Cfg) {ups : List URow} {ws : List W} (h : Initial ups ws) (sched : List Nat) :
    (run (init c ups ws) sched).startTasks = (run (init c ups ws) sched).planCommits ∧
    (run (init c ups ws) sched).startTasks ≤ 1 := by
  have h4 := (reach_inv c h sched).jok.starts
  have := plan_unique c h sched
  exact ⟨h4, by omega⟩

/-- a plan only ever commits on a claimed row, and the claim is the unique one -/
theorem plan_needs_claim (c : Cfg) {ups : List URow} {ws : List W} (h : Initial ups ws) (sched : List Nat) :
    (run (init c ups ws) sched).planCommits ≤ (run (init c ups ws) sched).claimCommits := by
  have inv := (reach_inv c h sched).jok
  have h1 := inv.claims
  have h3 := inv.plans
  have h2 := inv.planned_running
  split at h3
  · rename_i hp
    have := h2 hp
    rw [this] at h1; simp at h1; omega
  · omega

/-- **join_fired_once.** `_join_fired` is on the row iff the join fires and THE plan committed: it is written by exactly
    one claimant. -/
theorem join_fired_once (c : Cfg) {ups : List URow} {ws : List W} (h : Initial ups ws) (sched : List Nat) :
    (run (init c ups ws) sched).j.fired = true ↔
      (c.fires = true ∧ (run (init c ups ws) sched).planCommits = 1) := by
  have inv := (reach_inv c h sched).jok
  have h6 := inv.fired
  have h3 := inv.plans
  rw [run_cfg, show (init c ups ws).cfg = c from rfl] at h6
  rw [h6]
  cases hp : (run (init c ups ws) sched).j.planned <;> simp [hp] at h3 ⊢ <;> omega

theorem upStatuses_length (ups : List URow) : (upStatuses ups).length = ups.length := by
  simp [upStatuses]

/-- **fired ⇒ NOT_READY.** A StartStage delivery whose row read saw `_join_fired` (DISCRIMINATOR, or N_OF_M with a
    positive threshold, at least one upstream) ends NOT_READY without touching anything. -/
theorem fired_blocks_later_start (s : St) (i : Nat) (st : JStatus) (v : Nat) (hh : Bool)
    (hw : s.ws[i]? = some (.sUps st v true hh)) (hups : s.ups ≠ [])
    (hj : s.cfg.join = .discriminator ∨ (s.cfg.join = .nOfM ∧ 0 < s.cfg.threshold)) :
    step s i = { s with ws := s.ws.set i (.done .notReady) } := by
  have hne : (upStatuses s.ups).isEmpty = false := by
    cases hu : s.ups with
    | nil => exact absurd hu hups
    | cons a t => simp [upStatuses]
  rw [step_some hw]
  have : readiness s.cfg true s.ups = .notReady := by
    rcases hj with hd | ⟨hn, ht⟩
    · simp [readiness, Ready.evaluate, hne, hd, Ready.discriminator]
    · have : ¬ s.cfg.threshold ≤ 0 := by omega
      simp [readiness, Ready.evaluate, hne, hn, Ready.nOfM, this]
  simp [stepW, this]

/-- **downstream_triggered_once.** However many CompleteStage(uᵢ) handlers race (duplicates, redeliveries, retries after
    a lost CAS), each upstream pushes its StartStage batch at most once. -/
theorem downstream_triggered_once (c : Cfg) {ups : List URow} {ws : List W} (h : Initial ups ws) (sched : List Nat) :
    ∀ u ∈ (run (init c ups ws) sched).ups, u.pushes ≤ 1 := by
  intro u hu
  obtain ⟨k, hk⟩ := List.mem_iff_getElem?.mp hu
  rcases (reach_inv c h sched).jok.ups k u hk with h0 | ⟨h1, _⟩ <;> omega

/-- … and an upstream that pushed its batch is SUCCEEDED -/
theorem pushed_is_succeeded (c : Cfg) {ups : List URow} {ws : List W} (h : Initial ups ws) (sched : List Nat) :
    ∀ u ∈ (run (init c ups ws) sched).ups, u.pushes = 1 → u.status = .succeeded := by
  intro u hu h1
  obtain ⟨k, hk⟩ := List.mem_iff_getElem?.mp hu
  rcases (reach_inv c h sched).jok.ups k u hk with h0 | ⟨_, hs⟩
  · omega
  · exact hs

/-! ### progress -/

/-- **someone_plans.** If every handler ran to completion and at least one StartStage handler saw READY and
    went for the claim, then exactly one plan committed — whatever non-claim writers did in between. -/
theorem someone_plans (c : Cfg) (hfix : c.fix = true) {ups : List URow} {ws : List W} (h : Initial ups ws)
    (sched : List Nat) (hdone : allDone (run (init c ups ws) sched) = true)
    (hatt : (run (init c ups ws) sched).attempted = true) :
    (run (init c ups ws) sched).planCommits = 1 := by
  have inv := reach_inv c h sched
  have live := run_live (init_inv c ups ws h.1 h.2) (by simpa [init] using hfix) (init_live c ups ws) sched
  generalize run (init c ups ws) sched = s at *
  have hplanned : s.j.planned = true := by
    cases hst : s.j.status with
    | notStarted =>
      obtain ⟨i, w, hw, hp⟩ := live.l1 hatt hst
      rw [(done_not_pending (allDone_get hdone hw)).1] at hp; cases hp
    | running =>
      cases hpl : s.j.planned with
      | true => rfl
      | false =>
        obtain ⟨i, w, hw, hp⟩ := live.l2 hst hpl
        rw [(done_not_pending (allDone_get hdone hw)).2.1] at hp; cases hp
  have := inv.jok.plans
  simpa [hplanned] using this

/-- **LEGACY-compatible form.** Before fix 03375b7 the same conclusion needed the hypothesis that no non-claim write
    (persistent-signal buffering, `_update_join_tracking`) committed on the row while a StartStage handler was between its
    row read and its plan commit (`disturbed = false`). Holds with and without the fix. -/
theorem someone_plans_undisturbed (c : Cfg) {ups : List URow} {ws : List W} (h : Initial ups ws)
    (sched : List Nat) (hdone : allDone (run (init c ups ws) sched) = true)
    (hatt : (run (init c ups ws) sched).attempted = true)
    (hcalm : (run (init c ups ws) sched).disturbed = false) :
    (run (init c ups ws) sched).planCommits = 1 := by
  have inv := reach_inv c h sched
  have calm := run_calm (init_inv c ups ws h.1 h.2) (init_calm c ups ws h.2) sched
  generalize run (init c ups ws) sched = s at *
  have hplanned : s.j.planned = true := by
    cases hst : s.j.status with
    | notStarted =>
      obtain ⟨i, w, hw, hp⟩ := calm.u1 hatt hst hcalm
      rw [(done_not_pending (allDone_get hdone hw)).2.2.1] at hp; cases hp
    | running =>
      cases hpl : s.j.planned with
      | true => rfl
      | false =>
        obtain ⟨i, w, hw, hp⟩ := calm.u2 hst hpl hcalm
        rw [(done_not_pending (allDone_get hdone hw)).2.2.2] at hp; cases hp
  have := inv.jok.plans
  simpa [hplanned] using this

/-- only StartStage handlers ⇒ never disturbed -/
def W.isStart : W → Bool
  | .cIdle _ | .cRow .. | .cTrack .. | .cTrackTxn .. | .cTxn .. | .gIdle | .gTxn _ => false
  | _ => true

theorem stepW_start (s : St) (i : Nat) (w : W) (hw : W.isStart w = true) :
    W.isStart (stepW s i w).2 = true ∧ (stepW s i w).1.disturbed = s.disturbed := by
  cases w <;> simp only [stepW, decideStart] <;> (repeat' split) <;> simp [W.isStart] at *

theorem run_start_only {s : St} (hs : ∀ (i : Nat) (w : W), s.ws[i]? = some w → W.isStart w = true) (sched : List Nat) :
    (run s sched).disturbed = s.disturbed := by
  induction sched generalizing s with
  | nil => rfl
  | cons i rest ih =>
    show (run (step s i) rest).disturbed = s.disturbed
    cases hw : s.ws[i]? with
    | none => rw [step_none hw]; exact ih hs
    | some w =>
      have hst := stepW_start s i w (hs i w hw)
      have hstep : step s i = { (stepW s i w).1 with ws := s.ws.set i (stepW s i w).2 } := step_some hw
      rw [ih (s := step s i)]
      · rw [hstep]; exact hst.2
      · intro k u hk
        rw [hstep] at hk
        by_cases hki : k = i
        · subst hki
          rw [show ({ (stepW s k w).1 with ws := s.ws.set k (stepW s k w).2 } : St).ws = s.ws.set k (stepW s k w).2 from rfl,
              getElem?_set_self' hw] at hk
          cases hk; exact hst.1
        · rw [show ({ (stepW s i w).1 with ws := s.ws.set i (stepW s i w).2 } : St).ws = s.ws.set i (stepW s i w).2 from rfl,
              getElem?_set_ne' hki] at hk
          exact hs k u hk

/-- **someone_plans without foreign writers** (any `fix`): racing StartStage handlers alone always get the stage planned. -/
theorem someone_plans_no_foreign (c : Cfg) {ups : List URow} (n : Nat) (hups : ∀ u ∈ ups, u.pushes = 0) (sched : List Nat)
    (hdone : allDone (run (init c ups (List.replicate n .sIdle)) sched) = true)
    (hatt : (run (init c ups (List.replicate n .sIdle)) sched).attempted = true) :
    (run (init c ups (List.replicate n .sIdle)) sched).planCommits = 1 := by
  have hws : ∀ w ∈ List.replicate n W.sIdle, w.isInitial = true := by
    intro w hw; rw [List.eq_of_mem_replicate hw]; rfl
  refine someone_plans_undisturbed c ⟨hups, hws⟩ sched hdone hatt ?_
  rw [run_start_only]
  · rfl
  · intro i w hw
    have : w ∈ List.replicate n W.sIdle := List.mem_of_getElem? hw
    rw [List.eq_of_mem_replicate this]; rfl

/-! ### LEGACY: the unrestricted statement was false of the code before fix 03375b7 (finding F6) -/

def upsDone : List URow := [⟨.succeeded, 6, 0⟩, ⟨.succeeded, 6, 0⟩]

/-- **LEGACY F6a (`fix = false`).** One StartStage(j) handler (all upstream SUCCEEDED, AND join) and one persistent SignalStage(j): the signal is
    buffered between the handler's read and its claim; the claim CAS fails; the handler returns; everybody is done;
    nothing was planned and the row is still NOT_STARTED. -/
theorem legacy_someone_plans_counterexample_signal_before_claim :
    let s := run (init { fix := false } upsDone [.sIdle, .gIdle]) [0, 0, 0, 0, 1, 1, 0]
    allDone s = true ∧ s.attempted = true ∧ s.planCommits = 0 ∧ s.j.status = .notStarted ∧ s.disturbed = true := by
  decide

/-- **LEGACY F6b (`fix = false`).** Same workers, the signal lands between the claim commit and the plan commit: the plan CAS fails, the handler
    returns; the row is RUNNING, no StartTask was ever pushed. -/
theorem legacy_someone_plans_counterexample_signal_before_plan :
    let s := run (init { fix := false } upsDone [.sIdle, .gIdle]) [0, 0, 0, 0, 0, 1, 1, 0, 0]
    allDone s = true ∧ s.attempted = true ∧ s.planCommits = 0 ∧ s.j.status = .running ∧ s.startTasks = 0 := by
  decide

/-- **LEGACY F6c (`fix = false`) — C04's own scenario.** DISCRIMINATOR join, u₀ finished, u₁ finishing: StartStage(j) (pushed by u₀) claims j;
    CompleteStage(u₁)'s `_update_join_tracking` writes `_completed_branches` into j before the plan commit; the plan CAS
    fails and is swallowed.  (CompleteStage(u₁) then pushes another StartStage(j), which finds j RUNNING with tasks and is
    ignored — see the replay.) -/
theorem legacy_someone_plans_counterexample_join_tracking :
    let s := run (init { join := .discriminator, fix := false } [⟨.succeeded, 6, 0⟩, ⟨.running, 5, 0⟩] [.sIdle, .cIdle 1, .sIdle])
      [0, 0, 0, 0, 0, 1, 1, 1, 1, 1, 0, 0, 2, 2, 2, 2]
    allDone s = true ∧ s.attempted = true ∧ s.planCommits = 0 ∧ s.j.status = .running ∧ s.claimCommits = 1 := by
  decide

/-- LEGACY: hence the unrestricted `someone_plans` (quantified over `fix` too) fails for `fix = false` -/
theorem legacy_someone_plans_false_before_fix :
    ¬ ∀ (c : Cfg) (ups : List URow) (ws : List W), Initial ups ws → ∀ sched : List Nat,
        allDone (run (init c ups ws) sched) = true → (run (init c ups ws) sched).attempted = true →
        (run (init c ups ws) sched).planCommits = 1 := by
  intro h
  have := h { fix := false } upsDone [.sIdle, .gIdle] ⟨by decide, by decide⟩ [0, 0, 0, 0, 1, 1, 0] (by decide) (by decide)
  revert this
  decide

/-! ### non-vacuity -/

/-- the same schedules in the code as it is now end with exactly one plan (the loser re-reads and retries) -/
example :
    let s := run (init { fix := true } upsDone [.sIdle, .gIdle]) [0, 0, 0, 0, 1, 1, 0, 0, 0, 0, 0, 0, 0]
    allDone s = true ∧ s.attempted = true ∧ s.planCommits = 1 ∧ s.j.buffered = 1 := by decide

example :
    let s := run (init { join := .discriminator, fix := true } [⟨.succeeded, 6, 0⟩, ⟨.running, 5, 0⟩] [.sIdle, .cIdle 1, .sIdle])
      [0, 0, 0, 0, 0, 1, 1, 1, 1, 1, 0, 0, 0, 0, 0, 2, 2, 2, 2]
    allDone s = true ∧ s.attempted = true ∧ s.planCommits = 1 ∧ s.j.fired = true ∧ s.j.branches = [1] := by decide

/-- zombie take-over (no predefined tasks): A claims, Z sees RUNNING without tasks and re-claims, A's plan CAS fails,
    Z plans: one plan, one StartTask, one NOT_STARTED → RUNNING claim, one re-claim -/
theorem zombie_takeover_single_plan :
    let s := run (init { predefined := false, fix := false } upsDone [.sIdle, .sIdle])
      [0, 0, 0, 0, 0, 1, 1, 1, 1, 1, 1, 0, 0, 1, 1]
    allDone s = true ∧ s.planCommits = 1 ∧ s.startTasks = 1 ∧ s.claimCommits = 1 ∧ s.reclaimCommits = 1 := by
  decide

/-- two racing StartStage handlers reading before either claims: one plans, the other loses the claim -/
example :
    let s := run (init { fix := false } upsDone [.sIdle, .sIdle]) [0, 1, 0, 1, 0, 1, 0, 1, 0, 1, 0, 0]
    allDone s = true ∧ s.claimCommits = 1 ∧ s.planCommits = 1 ∧ s.disturbed = false := by decide

/-- two CompleteStage(u₁) racing: one completes, the other finds the row changed and then no longer RUNNING -/
example :
    let s := run (init {} [⟨.succeeded, 6, 0⟩, ⟨.running, 5, 0⟩] [.cIdle 1, .cIdle 1]) [0, 1, 0, 1, 0, 1, 1]
    allDone s = true ∧ s.ups.map (·.pushes) = [0, 1] := by decide

example : Initial upsDone [.sIdle, .gIdle, .cIdle 1] := ⟨by decide, by decide⟩

end Stab.Props.C04
