/- Property theorems for C04 — to be filled in. -/
namespace Stab.Props.C04
end Stab.Props.C04
