/- Property theorems for C12 — to be filled in. -/
namespace Stab.Props.C12
end Stab.Props.C12
