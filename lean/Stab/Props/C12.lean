/-
  C12 — Replaying the event log reproduces the stored state.

  Model: `Stab.Replay` (`EventReplayer._apply_event` fold, `rebuild_workflow_state` with
  `as_of_sequence` and a latest snapshot).  Tables regenerated from the source on every run:
  `Stab.Gen.EventMap` (event types, recorder functions, the fold table of `replay.py`, the fields
  `_load_state_from_snapshot` restores, the comparison operators / SQL of the rebuild) and
  `Stab.Gen.EventSites` (every call of a recorder in a handler, with the status just written).

  1. tables = model (`gen_*`): a change of `replay.py`/recorders breaks a proof obligation.
  2. pure theorems for ALL logs: `rebuild_asof_eq_prefix_fold`, `asof_events_are_a_prefix`,
     `snapshot_plus_tail_eq_full` (ALL fields, for the loader of the source under check — generated flag),
     `snapshot_plus_tail_eq_modTimes` (any loader: all fields but the two time stamps),
     `snapshot_plus_tail_eq_full_iff_loads_times` (the unrestricted statement holds iff the loader
     restores `start_time/end_time`), `snapshot_plus_tail_eq_full_counterexample`: the concrete
     witness for the loader as originally shipped (finding F3, repaired).
  3. engine level, over an abstract history of durable status writes with the events recorded for
     them: `recorder_event_folds_to_written_status` (table level, every recorder call site),
     `replay_agrees_on_covered` (history level).
-/
import Stab.Lemmas.Replay
import Stab.Gen.EventMap
import Stab.Gen.EventSites

namespace Stab.Props.C12
open Stab Stab.Replay

/-! ## 1. generated tables = model -/

def kindLower : Kind → String
  | .workflow => "workflow" | .stage => "stage" | .task => "task"

def kindOfLower? : String → Option Kind
  | "workflow" => some .workflow | "stage" => some .stage | "task" => some .task | _ => none

def effString : StatusEffect → String
  | .const s => "const:" ++ s
  | .data d => "data:" ++ d
  | .none => "none"

/-- status effect of `(kind, event type)` in the table generated from `replay.py` -/
def genEffect (k : Kind) (t : EType) : String :=
  match Stab.Gen.EventMap.foldTable.find? (fun r => r.1 == kindLower k && r.2.1 == t.name) with
  | some r => r.2.2.1
  | none => "none"

/-- fields assigned per `(kind, event type)` — hand-written counterpart of the generated column -/
def assignedFields : Kind → EType → List String
  | .workflow, .workflowCreated => ["application", "name"]
  | .workflow, .workflowStarted => ["start_time", "status", "context"]
  | .workflow, .workflowCompleted => ["end_time", "status"]
  | .workflow, .workflowFailed => ["end_time", "status"]
  | .workflow, .workflowCanceled => ["end_time", "status"]
  | .workflow, .workflowPaused => ["status"]
  | .workflow, .workflowResumed => ["status"]
  | .workflow, .contextUpdated => ["context"]
  | .stage, .stageStarted => ["status", "start_time"]
  | .stage, .stageCompleted => ["status", "end_time", "outputs"]
  | .stage, .stageFailed => ["status", "end_time", "error"]
  | .stage, .stageSkipped => ["status", "skip_reason"]
  | .stage, .stageCanceled => ["status"]
  | .task, .taskStarted => ["status", "start_time"]
  | .task, .taskCompleted => ["status", "end_time", "outputs"]
  | .task, .taskFailed => ["status", "end_time", "error"]
  | .task, .taskRetried => ["retry_count"]
  | _, _ => []

def genAssigned (k : Kind) (t : EType) : List String :=
  match Stab.Gen.EventMap.foldTable.find? (fun r => r.1 == kindLower k && r.2.1 == t.name) with
  | some r => r.2.2.2
  | none => []

/-- the `EventType` enum of the source is the model's, in declaration order -/
theorem gen_event_types_eq_model :
    Stab.Gen.EventMap.eventTypes.map (·.1) = EType.all.map EType.name := by decide

theorem gen_entity_types_eq_model :
    Stab.Gen.EventMap.entityTypes.map (·.1) = [Kind.workflow, .stage, .task].map Kind.name := by decide

/-- `_apply_event` dispatches each entity type to its own fold function -/
theorem gen_dispatch_eq_model :
    Stab.Gen.EventMap.foldDispatch =
      [("WORKFLOW", "_apply_workflow_event"), ("STAGE", "_apply_stage_event"), ("TASK", "_apply_task_event")] := by
  decide

/-- **fold table.** For every (entity type, event type) the status effect extracted from `replay.py`
    is the model's `statusEffect` — e.g. mapping TASK_FAILED to another default breaks this. -/
theorem gen_fold_table_eq_model (k : Kind) (t : EType) :
    genEffect k t = effString (statusEffect k t) := by
  cases k <;> cases t <;> decide

/-- every row of the generated fold table is a known (kind, event type) -/
theorem gen_fold_table_rows_known :
    Stab.Gen.EventMap.foldTable.all (fun r => (kindOfLower? r.1).isSome && (EType.ofName? r.2.1).isSome) = true := by
  decide

theorem gen_fold_fields_eq_model (k : Kind) (t : EType) : genAssigned k t = assignedFields k t := by
  cases k <;> cases t <;> decide

/-- entries created for unseen stages / tasks carry exactly the keys the model creates -/
theorem gen_entry_keys_eq_model (e : Event) :
    (stageInit e).map (·.1) = Stab.Gen.EventMap.stageEntryKeys
    ∧ (taskInit e).map (·.1) = Stab.Gen.EventMap.taskEntryKeys := by
  constructor <;> simp [stageInit, taskInit, Stab.Gen.EventMap.stageEntryKeys, Stab.Gen.EventMap.taskEntryKeys]

/-- `rebuild_workflow_state`: snapshot usable iff `snapshot.sequence <= as_of`, events kept iff
    `e.sequence <= as_of`, start sequence = `snapshot.sequence`, and the store query is
    `sequence > ? ORDER BY sequence ASC` — the comparisons `snapshotUsable`, `upTo`, `eventsAfter` model. -/
theorem gen_rebuild_shape :
    Stab.Gen.EventMap.snapshotGuardOp = "LtE" ∧ Stab.Gen.EventMap.asOfFilterOp = "LtE"
    ∧ Stab.Gen.EventMap.startSequenceFrom = "snapshot.sequence"
    ∧ Stab.Gen.EventMap.workflowQuery
        = "SELECT * FROM events WHERE workflow_id = ? AND sequence > ? ORDER BY sequence ASC" := by
  decide

/-- the snapshot loader restores status, application, name, context, stages and tasks
    (whether it restores the two time stamps is `snapshotLoadsTimes`) -/
theorem gen_snapshot_loader_fields :
    ["application", "context", "name", "stages", "status", "tasks"].all
      (fun f => Stab.Gen.EventMap.snapshotLoadedFields.contains f) = true
    ∧ Stab.Gen.EventMap.snapshotLoadedFields.all
      (fun f => ["application", "context", "name", "stages", "status", "tasks", "workflow_id", "start_time", "end_time"].contains f) = true := by
  decide

/-! ## 2. pure theorems: as-of = prefix fold, snapshot + tail = full -/

/-- **Rebuilding as of sequence `n` equals folding exactly the events with sequence ≤ n**
    (all logs, all `n`; the loader flag is irrelevant without a snapshot). -/
theorem rebuild_asof_eq_prefix_fold (lt : Bool) (log : List Event) (n : Nat) :
    rebuild lt log (some n) none
      = replay State.empty (log.filter (fun e => decide (0 < e.seq) && decide (e.seq ≤ n))) := by
  simp [rebuild, upTo, eventsAfter, List.filter_filter, Bool.and_comm]

/-- without `as_of`: the fold of the whole log -/
theorem rebuild_full_eq_fold (lt : Bool) (log : List Event) :
    rebuild lt log none none = replay State.empty (log.filter (fun e => decide (0 < e.seq))) := by
  simp [rebuild, upTo, eventsAfter]

/-- on the table order the events with sequence ≤ n form a prefix of the log, the rest a suffix -/
theorem asof_events_are_a_prefix (log : List Event) (hs : Sorted log) (n : Nat) :
    log = log.filter (fun e => decide (e.seq ≤ n)) ++ log.filter (fun e => decide (n < e.seq)) := by
  have h := filter_split_at log hs (fun _ => true) n
  have ht : log.filter (fun _ => true) = log := List.filter_eq_self.mpr (fun _ _ => rfl)
  rw [ht] at h
  simpa using h

/-- a snapshot later than the requested sequence is ignored -/
theorem rebuild_ignores_later_snapshot (lt : Bool) (log : List Event) (n : Nat) (sn : Snapshot)
    (h : n < sn.seq) : rebuild lt log (some n) (some sn) = rebuild lt log (some n) none := by
  have : ¬ sn.seq ≤ n := by omega
  simp [rebuild, snapshotUsable, this]

/-- **Snapshot + later events = full replay, for every field a snapshot carries** (all sorted logs, all
    snapshot positions `k`, all `as_of`, both loaders).  The snapshot state may be any state that
    agrees with the full replay as of `k` on the carried fields — in particular one produced by a
    rebuild that itself started from an earlier snapshot.

    The full statement (`=` instead of `EqModTimes`) is `snapshot_plus_tail_eq_full` below; it holds iff the
    loader restores the time stamps (`snapshot_plus_tail_eq_full_iff_loads_times`) and was FALSE for the
    loader as originally shipped (`snapshot_plus_tail_eq_full_counterexample`, finding F3, repaired). -/
theorem snapshot_plus_tail_eq_modTimes (lt : Bool) (log : List Event) (hs : Sorted log)
    (k : Nat) (asOf : Option Nat) (st : State)
    (hst : EqModTimes st (rebuild lt log (some k) none)) :
    EqModTimes (rebuild lt log asOf (some { seq := k, state := st })) (rebuild lt log asOf none) := by
  by_cases hu : snapshotUsable { seq := k, state := st } asOf = true
  · have hu' : ∀ n, asOf = some n → k ≤ n := by
      intro n hn; subst hn; simpa [snapshotUsable] using hu
    simp only [rebuild, hu, if_true]
    rw [upTo_split log hs k asOf hu', replay_append]
    apply replay_congr_modTimes
    exact (load_eqModTimes lt _).trans (by simpa [rebuild] using hst)
  · simp only [rebuild, hu]
    exact EqModTimes.refl _

/-- statuses (workflow, every stage, every task) agree between snapshot-based and full rebuild -/
theorem snapshot_plus_tail_same_statuses (lt : Bool) (log : List Event) (hs : Sorted log)
    (k : Nat) (asOf : Option Nat) (kind : Kind) (id : String) :
    statusOf (rebuild lt log asOf (some { seq := k, state := rebuild lt log (some k) none })) kind id
      = statusOf (rebuild lt log asOf none) kind id :=
  statusOf_congr_modTimes
    (snapshot_plus_tail_eq_modTimes lt log hs k asOf _ (EqModTimes.refl _)) kind id

/-- with a loader that restores the time stamps the unrestricted statement holds -/
theorem snapshot_plus_tail_eq_full_of_loads_times (log : List Event) (hs : Sorted log)
    (k : Nat) (asOf : Option Nat) :
    rebuild true log asOf (some { seq := k, state := rebuild true log (some k) none })
      = rebuild true log asOf none := by
  generalize hst : rebuild true log (some k) none = st
  by_cases hu : snapshotUsable { seq := k, state := st } asOf = true
  · have hu' : ∀ n, asOf = some n → k ≤ n := by
      intro n hn; subst hn; simpa [snapshotUsable] using hu
    simp only [rebuild, hu, if_true]
    rw [upTo_split log hs k asOf hu', replay_append]
    subst hst
    simp [load, rebuild]
  · simp only [rebuild, hu]
    rfl

/-- witness log: one WORKFLOW_STARTED event -/
def witnessLog : List Event :=
  [{ seq := 1, kind := .workflow, eid := "w", etype := .workflowStarted, ts := "t1" }]

/-- **F3 (counterexample to the unrestricted statement for the loader as shipped):** snapshot at
    sequence 1 of the log `[WORKFLOW_STARTED@1]`; the full replay has `start_time = t1`, the
    snapshot-based one has `start_time = None`. -/
theorem snapshot_plus_tail_eq_full_counterexample :
    ¬ (∀ (log : List Event), Sorted log → ∀ (k : Nat) (asOf : Option Nat),
        rebuild false log asOf (some { seq := k, state := rebuild false log (some k) none })
          = rebuild false log asOf none) := by
  intro h
  have h1 := h witnessLog (by simp [Sorted, witnessLog]) 1 none
  have h2 := congrArg State.startTime h1
  simp [rebuild, witnessLog, snapshotUsable, load, upTo, eventsAfter, replay, apply, applyWorkflow,
    State.empty] at h2

/-- the unrestricted statement holds **iff** the loader restores the time stamps -/
theorem snapshot_plus_tail_eq_full_iff_loads_times (lt : Bool) :
    (∀ (log : List Event), Sorted log → ∀ (k : Nat) (asOf : Option Nat),
        rebuild lt log asOf (some { seq := k, state := rebuild lt log (some k) none })
          = rebuild lt log asOf none) ↔ lt = true := by
  constructor
  · intro h
    cases lt with
    | true => rfl
    | false => exact absurd h snapshot_plus_tail_eq_full_counterexample
  · intro h; subst h
    intro log hs k asOf
    exact snapshot_plus_tail_eq_full_of_loads_times log hs k asOf

/-- the same for the loader of the source tree being checked: "snapshot + tail = full replay on
    ALL fields" is true of the model exactly when `_load_state_from_snapshot` passes `start_time`
    and `end_time` on (generated flag; `false` for the code as shipped, `true` with proposed_fixes/F3.diff) -/
theorem snapshot_plus_tail_eq_full_for_source :
    (∀ (log : List Event), Sorted log → ∀ (k : Nat) (asOf : Option Nat),
        rebuild Stab.Gen.EventMap.snapshotLoadsTimes log asOf
            (some { seq := k, state := rebuild Stab.Gen.EventMap.snapshotLoadsTimes log (some k) none })
          = rebuild Stab.Gen.EventMap.snapshotLoadsTimes log asOf none)
      ↔ Stab.Gen.EventMap.snapshotLoadsTimes = true :=
  snapshot_plus_tail_eq_full_iff_loads_times _

/-- **Snapshot + later events = full replay, on ALL fields, for the source tree under check** (all sorted
    logs, all snapshot positions, all `as_of`).  The proof obligation `snapshotLoadsTimes = true` is
    discharged from the table generated from `_load_state_from_snapshot`: dropping `start_time` /
    `end_time` there again (finding F3) breaks this theorem. -/
theorem snapshot_plus_tail_eq_full (log : List Event) (hs : Sorted log) (k : Nat) (asOf : Option Nat) :
    rebuild Stab.Gen.EventMap.snapshotLoadsTimes log asOf
        (some { seq := k, state := rebuild Stab.Gen.EventMap.snapshotLoadsTimes log (some k) none })
      = rebuild Stab.Gen.EventMap.snapshotLoadsTimes log asOf none :=
  snapshot_plus_tail_eq_full_for_source.mpr (by decide) log hs k asOf

/-- recording the same status event twice (e.g. a handler retried after its event was appended)
    does not change any status -/
theorem duplicate_event_keeps_status (s : State) (e : Event) (k : Kind) (id : String) :
    statusOf (apply (apply s e) e) k id = statusOf (apply s e) k id := by
  by_cases ha : About e k id
  · obtain ⟨hk, hid⟩ := ha
    subst hk
    have key : statusOf (apply (apply s e) e) e.kind e.eid = statusOf (apply s e) e.kind e.eid := by
      cases hv : (statusEffect e.kind e.etype).value e with
      | some w => rw [statusOf_apply_effect _ e w hv, statusOf_apply_effect _ e w hv]
      | none =>
        have hn : statusEffect e.kind e.etype = .none := by
          cases he : statusEffect e.kind e.etype <;> simp [he, StatusEffect.value] at hv ⊢
        rw [statusOf_apply_noeffect _ e hn]
    cases hid with
    | inl hw => simp only [statusOf, hw] at key ⊢; exact key
    | inr hid => subst hid; exact key
  · exact statusOf_apply_frame _ e k id ha

/-! ## 3. engine level: events recorded with status writes -/

/-- what the fold yields for an event created by recorder row `r` when the entity's written status is `w`
    and the handler wrote literal `lit` (or "dynamic"); `none` = the table does not justify the site -/
def siteFoldOk (kind : Kind) (t : EType) (src lit : String) : Bool :=
  match statusEffect kind t with
  | .const c => lit == c
  | .data d => src == "entity" || lit == d
  | .none => true

/-- recorder row of a callee -/
def rowOf (callee : String) : Option (String × String × String × String) :=
  Stab.Gen.EventMap.recorders.find? (fun r => r.1 == callee)

/-- sites whose event is knowingly NOT the status just written (reviewed exceptions):
    `StartWaitingWorkflowsHandler` records WORKFLOW_STARTED when it promotes a buffered workflow to
    NOT_STARTED (the StartWorkflow step that follows writes RUNNING and records again). -/
def reviewedStatusExceptions : List (String × String) :=
  [("handlers/start_waiting_workflows.py", "record_workflow_started")]

/-- table check of one recording site -/
def siteOk (s : Stab.Gen.EventSites.Site) : Bool :=
  s.kind == "helper-call" || reviewedStatusExceptions.contains (s.module, s.callee) ||
  match rowOf s.callee with
  | some (_, k, t, src) =>
    match kindOfLower? k, EType.ofName? t with
    | some kind, some et => siteFoldOk kind et src s.written
    | _, _ => false
  | none => false

/-- every recorder call site of every handler passes the table check -/
theorem all_recording_sites_ok : Stab.Gen.EventSites.sites.all siteOk = true := by decide

/-- **Table-level lemma.** For every recorder call site of the handlers (generated table) that is not a
    reviewed exception: whatever state the replayer is in, applying the event this recorder creates —
    event type from the recorder table, `data["status"]` = the entity's status name when the recorder
    copies it, absent otherwise — leaves the entity with exactly the status `w` the handler has just
    written (`w` is the literal at the site, or the entity status when the site is dynamic). -/
theorem recorder_event_folds_to_written_status
    (site : Stab.Gen.EventSites.Site) (_hs : site ∈ Stab.Gen.EventSites.sites)
    (hk : site.kind ≠ "helper-call") (hx : (site.module, site.callee) ∉ reviewedStatusExceptions)
    (fn k t src : String) (hrow : rowOf site.callee = some (fn, k, t, src))
    (kind : Kind) (et : EType) (hkind : kindOfLower? k = some kind) (het : EType.ofName? t = some et)
    (hok : siteOk site = true)
    (σ : State) (e : Event) (w : String)
    (hek : e.kind = kind) (hee : e.etype = et)
    (hw : site.written = "dynamic" ∨ site.written = w)
    (hdata : if src = "entity" then Dict.get e.data "status" = some w else Dict.get e.data "status" = none)
    (heff : statusEffect kind et ≠ .none) :
    statusOf (apply σ e) kind e.eid = some w := by
  have hok' : siteFoldOk kind et src site.written = true := by
    have hk' : (site.kind == "helper-call") = false := by simpa using hk
    simp only [siteOk, hk', hrow, hkind, het, Bool.false_or, Bool.or_eq_true, List.contains_iff_mem] at hok
    rcases hok with h | h
    · exact absurd h hx
    · exact h
  subst hek hee
  apply statusOf_apply_effect
  unfold siteFoldOk at hok'
  cases heq : statusEffect e.kind e.etype with
  | none => exact absurd heq heff
  | const c =>
    rw [heq] at hok'
    have hlit : site.written = c := by simpa using hok'
    -- a constant effect never comes from a dynamic site: the literal is the constant
    cases hw with
    | inl hd =>
      -- dynamic sites only pass the check for data-carrying recorders
      have : c = "dynamic" := by rw [← hlit, hd]
      subst this
      cases hkk : e.kind <;> cases htt : e.etype <;> simp [statusEffect, hkk, htt] at heq
    | inr hww => simp [StatusEffect.value, ← hww, hlit]
  | data d =>
    rw [heq] at hok'
    by_cases hsrc : src = "entity"
    · simp only [hsrc, if_true] at hdata
      simp [StatusEffect.value, Event.dgetD, hdata]
    · simp only [hsrc, if_false] at hdata
      have hlit : site.written = d := by simpa [hsrc] using hok'
      cases hw with
      | inl hd =>
        have : d = "dynamic" := by rw [← hlit, hd]
        subst this
        cases hkk : e.kind <;> cases htt : e.etype <;> simp [statusEffect, hkk, htt] at heq
      | inr hww => simp [StatusEffect.value, Event.dgetD, hdata, ← hww, hlit]

/-- one durable step of the engine as far as C12 is concerned: the entity, the status written to
    its row (if the step writes one) and the event recorded by the step (if any) -/
structure Step where
  kind : Kind
  eid : String
  write : Option String
  event : Option Event
  deriving Repr

/-- the step is about entity `(k, id)` -/
def Step.on (st : Step) (k : Kind) (id : String) : Prop := st.kind = k ∧ (k = .workflow ∨ st.eid = id)

/-- the event log of a history (append order = sequence order) -/
def logOf (h : List Step) : List Event := h.filterMap (·.event)

/-- the status the store holds after a history: the last write to the entity -/
def storeStatus : List Step → Kind → String → Option String
  | [], _, _ => none
  | st :: rest, k, id =>
    match storeStatus rest k id with
    | some w => some w
    | none => if st.kind = k ∧ (k = .workflow ∨ st.eid = id) then st.write else none

/-- **"Covered"**: the last status write of `(k,id)` was made by a step that recorded an event about
    the entity whose fold effect is the written status (for the real recorders that is the table-level
    lemma above), and no later step writes the entity's status or records a status-bearing event
    about it. -/
def Covered (h : List Step) (k : Kind) (id : String) (w : String) : Prop :=
  ∃ pre st post e, h = pre ++ st :: post ∧ st.on k id ∧ st.write = some w ∧ st.event = some e
    ∧ About e k id ∧ (statusEffect k e.etype).value e = some w
    ∧ (∀ s' ∈ post, s'.on k id → s'.write = none)
    ∧ (∀ s' ∈ post, ∀ e', s'.event = some e' → About e' k id → statusEffect k e'.etype = .none)

theorem storeStatus_none_of_no_write (post : List Step) (k : Kind) (id : String)
    (h : ∀ s' ∈ post, s'.on k id → s'.write = none) : storeStatus post k id = none := by
  induction post with
  | nil => rfl
  | cons a rest ih =>
    have ih' := ih (fun s' hs' => h s' (List.mem_cons_of_mem _ hs'))
    simp only [storeStatus, ih']
    by_cases ha : a.kind = k ∧ (k = .workflow ∨ a.eid = id)
    · simp [ha, h a List.mem_cons_self ha]
    · simp [ha]

/-- **Replay agrees with the store on covered entities**, for every history of steps, from every
    starting state of the replayer. -/
theorem replay_agrees_on_covered (h : List Step) (k : Kind) (id : String) (w : String) (σ : State)
    (hc : Covered h k id w) :
    storeStatus h k id = some w ∧ statusOf (replay σ (logOf h)) k id = some w := by
  obtain ⟨pre, st, post, e, hh, hon, hwr, hev, hab, heff, hpw, hpe⟩ := hc
  subst hh
  constructor
  · -- store side
    have hpost := storeStatus_none_of_no_write post k id hpw
    have : storeStatus (st :: post) k id = some w := by
      simp only [storeStatus, hpost]
      have : st.kind = k ∧ (k = .workflow ∨ st.eid = id) := hon
      simp [this, hwr]
    -- prefix does not matter once a later write exists
    clear hpost
    induction pre with
    | nil => simpa using this
    | cons a rest ih => simp [storeStatus, ih]
  · -- replay side
    have hlog : logOf (pre ++ st :: post) = logOf pre ++ e :: logOf post := by
      simp [logOf, List.filterMap_append, hev]
    rw [hlog, replay_append]
    simp only [replay, List.foldl_cons]
    have hpost : ∀ e' ∈ logOf post, About e' k id → statusEffect k e'.etype = .none := by
      intro e' he' ha'
      obtain ⟨s', hs', hse⟩ := List.mem_filterMap.mp he'
      exact hpe s' hs' e' hse ha'
    have hun := statusOf_replay_untouched (logOf post) (apply (List.foldl apply σ (logOf pre)) e) k id hpost
    simp only [replay] at hun
    rw [hun]
    obtain ⟨hk, hid⟩ := hab
    subst hk
    have key := statusOf_apply_effect (List.foldl apply σ (logOf pre)) e w heff
    cases hid with
    | inl hw => simp only [statusOf, hw] at key ⊢; exact key
    | inr hid => subst hid; exact key

/-! ### non-vacuity -/

-- a log with unknown event types, an event for an unknown task and a gap in the sequence
def sampleLog : List Event :=
  [{ seq := 1, kind := .workflow, eid := "w", etype := .workflowStarted, ts := "t1" },
   { seq := 2, kind := .stage, eid := "a", etype := .stageStarted, ts := "t2", data := [("ref_id", "a")] },
   { seq := 4, kind := .task, eid := "x", etype := .taskFailed, ts := "t3", data := [("status", "TERMINAL")] },
   { seq := 5, kind := .stage, eid := "a", etype := .jumpExecuted, ts := "t4" },
   { seq := 7, kind := .stage, eid := "a", etype := .stageFailed, ts := "t5", data := [("status", "TERMINAL")] },
   { seq := 9, kind := .workflow, eid := "w", etype := .workflowFailed, ts := "t6", data := [("status", "TERMINAL")] }]

example : Sorted sampleLog := by simp [Sorted, sampleLog]
example : statusOf (rebuild false sampleLog (some 4) none) .stage "a" = some "RUNNING" := by decide
example : statusOf (rebuild false sampleLog none none) .stage "a" = some "TERMINAL" := by decide
example : statusOf (rebuild false sampleLog none (some { seq := 4, state := rebuild false sampleLog (some 4) none })) .workflow "w"
    = some "TERMINAL" := by decide
-- the counterexample's two sides really differ in start_time only
example : (rebuild false witnessLog none none).startTime = "t1"
    ∧ (rebuild false witnessLog none (some { seq := 1, state := rebuild false witnessLog (some 1) none })).startTime = "null" := by
  decide

/-- a history in which stage "a" is covered: started (RUNNING, STAGE_STARTED), completed
    (SUCCEEDED, STAGE_COMPLETED carrying the status), followed by steps about other entities -/
def sampleHistory : List Step :=
  [{ kind := .stage, eid := "a", write := some "RUNNING",
     event := some { seq := 1, kind := .stage, eid := "a", etype := .stageStarted, ts := "t1" } },
   { kind := .stage, eid := "a", write := some "SUCCEEDED",
     event := some { seq := 2, kind := .stage, eid := "a", etype := .stageCompleted, ts := "t2", data := [("status", "SUCCEEDED")] } },
   { kind := .stage, eid := "b", write := some "RUNNING",
     event := some { seq := 3, kind := .stage, eid := "b", etype := .stageStarted, ts := "t3" } },
   { kind := .task, eid := "t", write := some "CANCELED", event := none }]

example : Covered sampleHistory .stage "a" "SUCCEEDED" := by
  refine ⟨[sampleHistory[0]], sampleHistory[1], [sampleHistory[2], sampleHistory[3]], _, rfl, ?_, rfl, rfl, ?_, ?_, ?_, ?_⟩
  · simp [Step.on, sampleHistory]
  · simp [About]
  · decide
  · intro s' hs' hon
    simp [sampleHistory] at hs'
    rcases hs' with rfl | rfl <;> simp [Step.on] at hon
  · intro s' hs' e' he' ha
    simp [sampleHistory] at hs'
    rcases hs' with rfl | rfl <;> simp at he'
    subst he'
    simp [About] at ha

-- the task canceled without an event (F8) is NOT covered: store CANCELED, replay has no status
example : storeStatus sampleHistory .task "t" = some "CANCELED"
    ∧ statusOf (replay State.empty (logOf sampleHistory)) .task "t" = none := by decide

end Stab.Props.C12
