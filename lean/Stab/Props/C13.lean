/-
  C13 — Events and the state they describe commit together.

  Model: `Stab.TxnScope` (thread-local scope + recorder + one SQLite connection, event store in the
  same database).  Generated table: `Stab.Gen.EventSites` (every recorder call of every handler with
  its position relative to the `with …transaction(…)` blocks).

  * for ALL op sequences from the initial state:
      `sequence_strictly_increasing`, `published_subset_committed` (unconditional, for the source under
      check via the generated flag; `…_of_not_swallowed` for either flag) (+ `publish_order_eq_append_order`,
      `published_after_commit`), `abort_publishes_nothing`, `abort_appends_nothing`,
      `crash_publishes_and_appends_nothing`, `inner_commit_defers_publication`;
    the model takes the flag `c` = "the inner-block branch of abort_store_transaction clears the queue"
    (generated: `Stab.Gen.TxnShape.innerAbortClearsPending`; false as originally shipped, true since commit 50ce0ff); the publication theorems
    carry the hypothesis `swallowed = false` (no block committed after an inner block had rolled back,
    i.e. the inner exception propagated); `published_subset_committed_counterexample` shows the
    hypothesis is needed for `c = false` (the code as originally shipped really published rolled-back
    events then — finding F35, repaired; no handler nests blocks: the harness observes a maximal scope
    depth of 1 on every engine run),
    `published_subset_committed_iff_inner_abort_clears` / `…_for_source`: the unrestricted statement
    holds iff `c = true`.
  * `event_durable_iff_state_durable`: a flat block (`begin; appends and state writes; end`) makes
    all of its events and all of its state writes durable and publishes the events iff it ends in
    `commit`; ending in `abort` or `crash` leaves both logs and the subscriber untouched.
  * `completion_block_all_or_nothing`: the instance for a block holding one state write and one event append.
  * `completion_event_inside_commit`, `outside_transaction_sites_reviewed`, `inside_sites_store_the_entity` over the
    generated site table; `gen_txn_shape` over the generated shape facts of txn_scope.py / _record / transaction().
-/
import Stab.Lemmas.TxnScope
import Stab.Gen.EventSites
import Stab.Gen.TxnShape

namespace Stab.Props.C13
open Stab Stab.TxnScope

/-! ## the scope model, all op sequences -/

/-- **Sequence numbers of durable events are 1, 2, …: unique and strictly increasing**, whatever
    mixture of blocks, rollbacks and crashes produced them (a rolled-back number is handed out again,
    as SQLite does; it never appears twice among durable rows). -/
theorem sequence_strictly_increasing (c : Bool) (ops : List Op) :
    ((run c St.init ops).durable.map (·.seq)).Pairwise (· < ·)
    ∧ ((run c St.init ops).durable.map (·.seq)) = List.range' 1 (run c St.init ops).durable.length := by
  have h := seqInv_run c ops St.init seqInv_init
  have hp := range_prefix _ _ h
  exact ⟨by rw [hp]; exact List.pairwise_lt_range' 1, hp⟩

/-- uncommitted rows continue the numbering: a joined append never collides with a durable row -/
theorem uncommitted_sequences_follow_durable (c : Bool) (ops : List Op) :
    ((run c St.init ops).durable ++ (run c St.init ops).uncommitted).map (·.seq)
      = List.range' 1 ((run c St.init ops).durable.length + (run c St.init ops).uncommitted.length) := by
  have h := seqInv_run c ops St.init seqInv_init
  simpa [SeqInv, allEv] using h

/-- **Every published event is durable, in the order in which it was appended** — the subscriber log is
    an order-preserving sublist of the durable log — provided no block committed after an inner block
    rolled back. -/
theorem published_subset_committed_of_not_swallowed (c : Bool) (ops : List Op) (h : (run c St.init ops).swallowed = false) :
    (run c St.init ops).published.Sublist (run c St.init ops).durable := by
  obtain ⟨_, hp⟩ := pubInv_run c ops St.init pubInv_init
  obtain ⟨d1, d2, hd, hpub, _⟩ := hp h
  rw [hd]
  exact hpub.trans (List.sublist_append_left _ _)

theorem published_mem_durable (c : Bool) (ops : List Op) (h : (run c St.init ops).swallowed = false) (e : Ev)
    (he : e ∈ (run c St.init ops).published) : e ∈ (run c St.init ops).durable :=
  (published_subset_committed_of_not_swallowed c ops h).subset he

/-- publication order = append (sequence) order: published sequences strictly increase -/
theorem publish_order_eq_append_order (c : Bool) (ops : List Op) (h : (run c St.init ops).swallowed = false) :
    ((run c St.init ops).published.map (·.seq)).Pairwise (· < ·) :=
  List.Pairwise.sublist ((published_subset_committed_of_not_swallowed c ops h).map _) (sequence_strictly_increasing c ops).1

/-- **published only after commit**: at every moment of every run (every prefix of the op sequence) what
    the subscriber has seen so far is already durable at that moment -/
theorem published_after_commit (c : Bool) (ops₁ ops₂ : List Op)
    (h : (run c St.init (ops₁ ++ ops₂)).swallowed = false) :
    (run c St.init ops₁).published.Sublist (run c St.init ops₁).durable := by
  apply published_subset_committed_of_not_swallowed
  cases hs : (run c St.init ops₁).swallowed with
  | false => rfl
  | true =>
    rw [run_append, swallowed_run c ops₂ _ hs] at h
    exact absurd h (by simp)

/-- outside any block nothing waits for publication and nothing is uncommitted -/
theorem nothing_pending_outside_blocks (c : Bool) (ops : List Op) (h : (run c St.init ops).depth = 0) :
    (run c St.init ops).pending = [] ∧ (run c St.init ops).uncommitted = [] ∧ (run c St.init ops).wUncommitted = [] := by
  obtain ⟨hz, _⟩ := pubInv_run c ops St.init pubInv_init
  obtain ⟨a, b, c, _⟩ := hz h
  exact ⟨a, b, c⟩

/-- the hypothesis `swallowed = false` is needed for the code as shipped (`c = false`): an inner block
    rolls back (taking the outer block's append with it — one connection), the exception is swallowed,
    the outer block commits and the rolled-back event is published.  The real `TxnScope` does exactly
    this (harness suite `txnscope-ops`, finding F35). -/
theorem published_subset_committed_counterexample :
    ¬ (∀ ops : List Op, ∀ e ∈ (run false St.init ops).published, e ∈ (run false St.init ops).durable) := by
  intro h
  have := h [.begin, .append 7, .begin, .abort, .commit] { seq := 1, tag := 7 } (by decide)
  revert this
  decide

/-- if the inner-block branch of `abort_store_transaction` clears the queue, the statement holds for ALL
    op sequences without any hypothesis -/
theorem published_subset_committed_of_clearing (ops : List Op) :
    (run true St.init ops).published.Sublist (run true St.init ops).durable :=
  published_subset_committed_of_not_swallowed true ops (clean_run ops St.init ⟨rfl, rfl⟩).2

/-- the unrestricted statement holds **iff** the inner abort clears the queue -/
theorem published_subset_committed_iff_inner_abort_clears (c : Bool) :
    (∀ ops : List Op, ∀ e ∈ (run c St.init ops).published, e ∈ (run c St.init ops).durable) ↔ c = true := by
  constructor
  · intro h
    cases c with
    | true => rfl
    | false => exact absurd h published_subset_committed_counterexample
  · intro h; subst h
    intro ops e he
    exact (published_subset_committed_of_clearing ops).subset he

/-- …for the source tree under check (generated flag: `false` as shipped, `true` with commit 50ce0ff) -/
theorem published_subset_committed_for_source :
    (∀ ops : List Op, ∀ e ∈ (run Stab.Gen.TxnShape.innerAbortClearsPending St.init ops).published,
        e ∈ (run Stab.Gen.TxnShape.innerAbortClearsPending St.init ops).durable)
      ↔ Stab.Gen.TxnShape.innerAbortClearsPending = true :=
  published_subset_committed_iff_inner_abort_clears _

/-- **Every published event is durable, in append order, at every moment — for ALL op sequences, for the
    source tree under check, without any hypothesis.**  The obligation `innerAbortClearsPending = true`
    is discharged from the table generated from `abort_store_transaction`; removing the
    `scope.pending.clear()` of the inner-abort branch again (finding F35) breaks this theorem. -/
theorem published_subset_committed (ops : List Op) :
    (run Stab.Gen.TxnShape.innerAbortClearsPending St.init ops).published.Sublist
      (run Stab.Gen.TxnShape.innerAbortClearsPending St.init ops).durable := by
  have h : Stab.Gen.TxnShape.innerAbortClearsPending = true := by decide
  rw [h]; exact published_subset_committed_of_clearing ops

/-- …and therefore published sequences strictly increase (publication order = append order), for the
    source under check, all op sequences -/
theorem publish_order_eq_append_order_for_source (ops : List Op) :
    ((run Stab.Gen.TxnShape.innerAbortClearsPending St.init ops).published.map (·.seq)).Pairwise (· < ·) :=
  List.Pairwise.sublist ((published_subset_committed ops).map _) (sequence_strictly_increasing _ ops).1

/-- **A rollback publishes nothing** (from every state, at every depth) -/
theorem abort_publishes_nothing (c : Bool) (s : St) : (step c s .abort).published = s.published := by
  by_cases h0 : s.depth = 0 <;> by_cases h1 : s.depth = 1 <;> simp [step, h0, h1]

/-- **A rollback makes nothing durable** and leaves nothing pending on the connection -/
theorem abort_appends_nothing (c : Bool) (s : St) :
    (step c s .abort).durable = s.durable ∧ (step c s .abort).wDurable = s.wDurable
    ∧ (step c s .abort).uncommitted = [] ∧ (step c s .abort).wUncommitted = [] := by
  by_cases h0 : s.depth = 0 <;> by_cases h1 : s.depth = 1 <;> simp [step, h0, h1]

/-- the outermost rollback also empties the publication queue -/
theorem outer_abort_drops_pending (c : Bool) (s : St) (h : s.depth = 1) :
    (step c s .abort).pending = [] ∧ (step c s .abort).depth = 0 := by
  simp [step, h]

theorem crash_publishes_and_appends_nothing (c : Bool) (s : St) :
    (step c s .crash).published = s.published ∧ (step c s .crash).durable = s.durable
    ∧ (step c s .crash).wDurable = s.wDurable ∧ (step c s .crash).pending = [] ∧ (step c s .crash).depth = 0 := by
  simp [step]

/-- re-entrancy: leaving an inner block normally commits the connection but publishes nothing yet -/
theorem inner_commit_defers_publication (c : Bool) (s : St) (h : 2 ≤ s.depth) :
    (step c s .commit).published = s.published ∧ (step c s .commit).depth = s.depth - 1
    ∧ (step c s .commit).pending = s.pending := by
  have h0 : s.depth ≠ 0 := by omega
  have h1 : s.depth ≠ 1 := by omega
  simp [step, h0, h1]

/-- an append outside any block is durable and published at once -/
theorem append_outside_block (c : Bool) (s : St) (h : s.depth = 0) (t : Nat) :
    (step c s (.append t)).published = s.published ++ [{ seq := nextSeq s, tag := t }]
    ∧ (step c s (.append t)).durable = s.durable ++ s.uncommitted ++ [{ seq := nextSeq s, tag := t }] := by
  simp [step, h]

/-- an append inside a block is neither durable nor published by itself -/
theorem append_inside_block (c : Bool) (s : St) (h : s.depth ≠ 0) (t : Nat) :
    (step c s (.append t)).published = s.published ∧ (step c s (.append t)).durable = s.durable := by
  simp [step, h]

/-- **Events and state writes of one block share one fate.**  From a state outside any block with a
    clean connection (every reachable depth-0 state: `nothing_pending_outside_blocks`), a flat block
    `begin; body; END` with `body` made of event appends and state writes:
    * END = commit: all events of the body become durable, all its state writes become durable, and
      exactly these events are published, in append order;
    * END = abort or crash: no event, no state write becomes durable and nothing is published. -/
theorem event_durable_iff_state_durable (c : Bool) (s : St) (h0 : s.depth = 0)
    (hclean : s.pending = [] ∧ s.uncommitted = [] ∧ s.wUncommitted = [])
    (body : List Op) (hf : body.all Op.isFlat = true) :
    let evs := mkEvs (nextSeq s) body
    ((run c s (.begin :: body ++ [.commit])).durable = s.durable ++ evs
      ∧ (run c s (.begin :: body ++ [.commit])).wDurable = s.wDurable ++ wTags body
      ∧ (run c s (.begin :: body ++ [.commit])).published = s.published ++ evs)
    ∧ ((run c s (.begin :: body ++ [.abort])).durable = s.durable
      ∧ (run c s (.begin :: body ++ [.abort])).wDurable = s.wDurable
      ∧ (run c s (.begin :: body ++ [.abort])).published = s.published)
    ∧ ((run c s (.begin :: body ++ [.crash])).durable = s.durable
      ∧ (run c s (.begin :: body ++ [.crash])).wDurable = s.wDurable
      ∧ (run c s (.begin :: body ++ [.crash])).published = s.published) := by
  obtain ⟨hp, hu, hw⟩ := hclean
  obtain ⟨s1, hs1⟩ : ∃ s1 : St, s1 = { s with depth := 1, pending := [], tainted := false } := ⟨_, rfl⟩
  have hb : step c s .begin = s1 := by simp [step, h0, hs1]
  have hn : nextSeq s1 = nextSeq s := by simp [hs1, nextSeq]
  have hd : s1.depth ≠ 0 := by simp [hs1]
  have hrun : ∀ last : Op, run c s (.begin :: body ++ [last]) = step c (run c s1 body) last := by
    intro last
    simp [run, List.foldl_append, hb]
  have hflat := run_flat c body s1 hd hf
  rw [hn] at hflat
  simp only [hrun, hflat]
  refine ⟨?_, ?_, ?_⟩ <;> simp [step, hs1, hu, hw]

/-- **No phantom completion event, no completion without its event** — the shape of the completion
    steps (`completion_event_inside_commit`: state write and event append inside one block).  For a
    flat block containing the state write `w` and the event append `a`:
    * committed: an event with tag `a` is durable and published, and `w` is durable;
    * killed or rolled back at any point before the commit returns: the durable events, the durable
      state writes and the subscriber log are exactly what they were before the block. -/
theorem completion_block_all_or_nothing (c : Bool) (s : St) (h0 : s.depth = 0)
    (hclean : s.pending = [] ∧ s.uncommitted = [] ∧ s.wUncommitted = [])
    (body : List Op) (hf : body.all Op.isFlat = true) (w a : Nat)
    (hw : Op.write w ∈ body) (ha : Op.append a ∈ body) :
    ((∃ e ∈ (run c s (.begin :: body ++ [.commit])).durable, e.tag = a ∧ e ∈ (run c s (.begin :: body ++ [.commit])).published)
      ∧ w ∈ (run c s (.begin :: body ++ [.commit])).wDurable)
    ∧ ((run c s (.begin :: body ++ [.abort])).durable = s.durable
        ∧ (run c s (.begin :: body ++ [.abort])).wDurable = s.wDurable
        ∧ (run c s (.begin :: body ++ [.abort])).published = s.published)
    ∧ ((run c s (.begin :: body ++ [.crash])).durable = s.durable
        ∧ (run c s (.begin :: body ++ [.crash])).wDurable = s.wDurable
        ∧ (run c s (.begin :: body ++ [.crash])).published = s.published) := by
  obtain ⟨⟨hd, hwd, hp⟩, hab, hcr⟩ := event_durable_iff_state_durable c s h0 hclean body hf
  refine ⟨⟨?_, ?_⟩, hab, hcr⟩
  · obtain ⟨e, he, ht⟩ := mem_mkEvs_of_append body (nextSeq s) a ha
    exact ⟨e, by rw [hd]; exact List.mem_append_right _ he, ht, by rw [hp]; exact List.mem_append_right _ he⟩
  · rw [hwd]; exact List.mem_append_right _ (mem_wTags_of_write body w hw)

/-! ## non-vacuity -/

-- a committed block: event 7 and write 3 durable together, published after the commit
example : (run false St.init [.begin, .write 3, .append 7, .commit]).durable = [{ seq := 1, tag := 7 }]
    ∧ (run false St.init [.begin, .write 3, .append 7, .commit]).wDurable = [3]
    ∧ (run false St.init [.begin, .write 3, .append 7]).published = []
    ∧ (run false St.init [.begin, .write 3, .append 7, .commit]).published = [{ seq := 1, tag := 7 }] := by decide
-- rollback: nothing durable, nothing published, and the sequence number is handed out again
example : (run false St.init [.begin, .write 3, .append 7, .abort, .append 8]).durable = [{ seq := 1, tag := 8 }]
    ∧ (run false St.init [.begin, .write 3, .append 7, .abort, .append 8]).wDurable = []
    ∧ (run false St.init [.begin, .write 3, .append 7, .abort, .append 8]).published = [{ seq := 1, tag := 8 }] := by decide
-- an inner exception that propagates keeps `swallowed = false`
example : (run false St.init [.begin, .append 1, .begin, .abort, .abort, .append 2]).swallowed = false := by decide
example : (run false St.init [.begin, .append 1, .begin, .abort, .commit]).swallowed = true := by decide

/-! ## the handlers (generated table) -/

open Stab.Gen.EventSites in
/-- the two handlers whose completion events the property is about -/
def completionModules : List String := ["handlers/complete_task.py", "handlers/complete_stage/handler.py"]

open Stab.Gen.EventSites in
/-- **Every completion-event call site of `complete_task.py` and `complete_stage/handler.py` lies
    lexically inside a `with …transaction(…)` block that also stores the entity**
    (`txn.store_stage` / `txn.update_workflow_status`): in these two modules every recorder call is
    either the body of the completion helper or a call of that helper inside such a block; there is
    at least one such call per module; moving a call out of its block falsifies this. -/
theorem completion_event_inside_commit :
    (sites.filter (fun s => completionModules.contains s.module)).all
      (fun s => (s.kind == "in-helper" && s.position == "helper")
             || (s.kind == "helper-call" && s.position == "inside" && s.stores)) = true
    ∧ completionModules.all (fun m => sites.any (fun s => s.module == m && s.kind == "helper-call")) = true
    ∧ completionModules.all (fun m => sites.any (fun s => s.module == m && s.kind == "in-helper")) = true
    ∧ (sites.filter (fun s => s.kind == "helper-call")).all (fun s => completionModules.contains s.module) = true
    ∧ (sites.filter (fun s => s.kind == "in-helper")).all (fun s => completionModules.contains s.module) = true := by
  decide

/-- (module, recorder, position) of the recorder calls that are reviewed and accepted OUTSIDE a transaction
    block.  "after": the state is durable first; a crash in between loses the event (documented
    best-effort, `_record` docstring).  No "before" site is accepted any more: `skip_stage.py` and
    `complete_workflow.py` used to record before their transaction (finding F10, repaired — they now
    record inside it); a site recording BEFORE the state-storing block breaks the theorem below. -/
def reviewedOutside : List (String × String × String) :=
  [("handlers/cancel_stage.py", "record_stage_canceled", "after"),
   ("handlers/cancel_stage.py", "record_task_completed", "after"),
   ("handlers/start_stage/handler.py", "record_stage_started", "after"),
   ("handlers/start_task.py", "record_task_started", "after"),
   ("handlers/start_waiting_workflows.py", "record_workflow_started", "after"),
   ("handlers/start_workflow.py", "record_workflow_created", "after"),
   ("handlers/start_workflow.py", "record_workflow_started", "after")]

open Stab.Gen.EventSites in
/-- **Every recorder call that is not inside a transaction block is on the reviewed list** (a new
    outside-transaction site, or one that records BEFORE its state-storing block, breaks this). -/
theorem outside_transaction_sites_reviewed :
    (sites.filter (fun s => s.kind == "direct" && s.position != "inside")).all
      (fun s => reviewedOutside.contains (s.module, s.callee, s.position)) = true := by
  decide

open Stab.Gen.EventSites in
/-- a direct recorder call inside a transaction block sits in a block that also stores the entity -/
theorem inside_sites_store_the_entity :
    (sites.filter (fun s => s.position == "inside")).all (fun s => s.stores) = true := by
  decide

/-- the scope functions, `_record` and `transaction()` still have the shape the model transcribes
    (begin re-entrant; commit: decrement, return while inner, unbind, publish the queue in order; abort:
    decrement, return while inner, unbind, never publish; `_record`: queue inside a scope, publish
    directly only outside, join the scope's connection; `transaction()`: begin → yield → commit inside the
    try → rollback + abort in the handler → commit_scope after the try) -/
theorem gen_txn_shape :
    Stab.Gen.TxnShape.innerAbortReturns = true ∧ Stab.Gen.TxnShape.abortNeverPublishes = true
    ∧ Stab.Gen.TxnShape.abortUnbinds = true ∧ Stab.Gen.TxnShape.abortDecrements = true
    ∧ Stab.Gen.TxnShape.innerCommitReturnsWithoutPublishing = true ∧ Stab.Gen.TxnShape.commitUnbinds = true
    ∧ Stab.Gen.TxnShape.commitDecrements = true ∧ Stab.Gen.TxnShape.commitPublishesPendingInOrder = true
    ∧ Stab.Gen.TxnShape.beginReentrant = true ∧ Stab.Gen.TxnShape.recordQueuesInScope = true
    ∧ Stab.Gen.TxnShape.recordPublishesDirectlyOnlyOutsideScope = true
    ∧ Stab.Gen.TxnShape.recordJoinsScopeConnection = true
    ∧ Stab.Gen.TxnShape.transactionOrder
        = ["begin_store_transaction", "yield", "try:conn.commit", "except Exception:conn.rollback",
           "except Exception:txn.rollback_versions", "except Exception:abort_store_transaction",
           "except Exception:raise", "commit_store_transaction"] := by
  decide

end Stab.Props.C13
