/- Property theorems for C13 — to be filled in. -/
namespace Stab.Props.C13
end Stab.Props.C13
