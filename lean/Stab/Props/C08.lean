/- Property theorems for C08 — to be filled in. -/
namespace Stab.Props.C08
end Stab.Props.C08
