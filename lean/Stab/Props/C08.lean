/-
  C08 — queue: at-least-once delivery, one holder at a time, nothing lost.

  All theorems are about the executable model `Stab.Queue` (lean/Stab/Model/Queue.lean), which mirrors
  the SQL of `queue/sqlite/queue.py`, `dlq.py` and `transaction.py:push_message`; the model is tied to the
  code by the Mode-A differential in harness/props/c08.py.  Invariants and their per-primitive
  preservation proofs are in `Stab/Lemmas/Queue.lean` and `Queue2.lean`.

  `run (init m) ops` ranges over EVERY op sequence: pushes (plain / transactional with its own limit /
  undeserialisable), split and atomic polls by any number of workers, ack / reschedule / extend by anyone
  (also by workers that never held the row), expire / mature (abstract time), DLQ moves, sweeps, replays,
  and a crash at any commit of any of these.
-/
import Stab.Lemmas.Queue2

namespace Stab.Props.C08
open Stab Stab.Queue

/-! ## nothing lost, nothing duplicated -/

/-- **Conservation.** After any op sequence (crashes included) every payload that was ever pushed
    (`t < nextTag`) is in exactly one of: queue, dead-letter queue, acknowledged; and nothing else is. -/
theorem conservation (m : Nat) (ops : List Op) (t : Nat) :
    places (run (init m) ops) t = if t < (run (init m) ops).nextTag then 1 else 0 :=
  cons_run (base_init m) (cons_init m) ops t

/-- the three places are pairwise disjoint and cover the pushed payloads -/
theorem exactly_one_place (m : Nat) (ops : List Op) (t : Nat) (h : t < (run (init m) ops).nextTag) :
    let s := run (init m) ops
    ((queueTags s).count t = 1 ∧ (dlqTags s).count t = 0 ∧ s.acked.count t = 0) ∨
    ((queueTags s).count t = 0 ∧ (dlqTags s).count t = 1 ∧ s.acked.count t = 0) ∨
    ((queueTags s).count t = 0 ∧ (dlqTags s).count t = 0 ∧ s.acked.count t = 1) := by
  have := conservation m ops t
  simp only [h, if_true, places] at this
  intro s
  simp only [s]
  omega

/-- **At least once.** A pushed payload that has not been acknowledged is still in the queue or in the DLQ. -/
theorem at_least_once (m : Nat) (ops : List Op) (t : Nat)
    (hp : t < (run (init m) ops).nextTag) (hn : t ∉ (run (init m) ops).acked) :
    t ∈ queueTags (run (init m) ops) ∨ t ∈ dlqTags (run (init m) ops) := by
  have := conservation m ops t
  simp only [hp, if_true, places, List.count_eq_zero_of_not_mem hn] at this
  by_cases h : t ∈ queueTags (run (init m) ops)
  · exact Or.inl h
  · right
    have := List.count_eq_zero_of_not_mem h
    apply List.count_pos_iff.mp
    omega

/-- … and it is deliverable again once its delay and its lock have lapsed, as long as it is below the
    queue's attempt limit: the poll's SELECT then returns some row (never "nothing"). -/
theorem redeliverable (s : State) (r : Row) (hr : r ∈ s.rows) (ha : r.attempts < s.maxAttempts) :
    let s' := run s [.act (.mature r.id), .act (.expire r.id)]
    (∃ r' ∈ s'.rows, r'.id = r.id ∧ r'.tag = r.tag ∧ eligible s'.maxAttempts r' = true) ∧
    ∃ c, candidate s' = some c := by
  obtain ⟨r', hr', h1, h2, h3⟩ := eligible_after_mature_expire hr ha
  exact ⟨⟨r', hr', h1, h2, h3⟩, candidate_some_of_eligible hr' h3⟩

/-- ids are unique and never reused (what `DELETE/UPDATE … WHERE id = :id` relies on) -/
theorem ids_unique (m : Nat) (ops : List Op) :
    (run (init m) ops).rows.Pairwise (fun a b => a.id ≠ b.id) ∧
    ∀ r ∈ (run (init m) ops).rows, r.id < (run (init m) ops).nextId :=
  ⟨(base_run (base_init m) ops).idNodup, (base_run (base_init m) ops).idLt⟩

/-! ## one holder at a time -/

/-- **Claim exclusivity.** Once a claim `UPDATE … WHERE id = :id AND version = :version` has hit a row,
    no row ever matches that `(id, version)` again — whatever happens afterwards.  So of all claims
    based on one SELECTed `(id, version)`, at most one has `rowcount = 1`. -/
theorem claim_exclusive (m : Nat) (pre post : List Op) (w : Nat) (x : Sel) (r : Row)
    (hx : selOf (run (init m) pre) w = some x) (hr : matched (run (init m) pre) x = some r) :
    ∀ r' ∈ (run (next (run (init m) pre) (.act (.pollClaim w))) post).rows,
      ¬ (r'.id = x.id ∧ r'.version = x.version) := by
  intro r' hr' ⟨h1, h2⟩
  have hb := base_run (base_init m) pre
  have := (verGt_run (verGt_after_claim hb hx hr) post).2 r' hr' h1
  omega

/-- the second claimer of the same snapshot loses (`poll_one` returns `None`) -/
theorem second_claim_loses (m : Nat) (pre post : List Op) (w w' : Nat) (x x' : Sel) (r : Row)
    (hx : selOf (run (init m) pre) w = some x) (hr : matched (run (init m) pre) x = some r)
    (hx' : selOf (run (next (run (init m) pre) (.act (.pollClaim w))) post) w' = some x')
    (same : x'.id = x.id ∧ x'.version = x.version) :
    claimHits (run (next (run (init m) pre) (.act (.pollClaim w))) post) w' = none := by
  simp only [claimHits, hx']
  cases hm : matched (run (next (run (init m) pre) (.act (.pollClaim w))) post) x' with
  | none => rfl
  | some r' =>
    obtain ⟨h1, h2, h3⟩ := matched_mem hm
    exact absurd ⟨by omega, by omega⟩ (claim_exclusive m pre post w x r hx hr r' h1)

/-
  FULL STATEMENT (false, see the counterexamples below):
    ∀ m ops i, (liveOn (run (init m) ops) i).length ≤ 1
  i.e. "no two workers hold the same row at the same time" for EVERY op sequence.
  What is proved: it holds for every op sequence in which `reschedule` and `extend` are only issued by a
  worker whose lease on that row has not lapsed (`disciplinedRun`; `ack` is unrestricted, so are all
  other ops, incl. crashes).  What is missing is exactly that side condition — the code does not enforce
  it: `reschedule` / `extend_lock` are `UPDATE … WHERE id = :id` with no claim token.
-/

/-- **One holder (partial).** Along a disciplined run: at most one live lease per row; a row with a live
    lease is locked; and every pending SELECT result for it is stale. -/
theorem no_claim_while_locked_partial (m : Nat) (ops : List Op) (ok : disciplinedRun (init m) ops = true) (i : Nat) :
    let s := run (init m) ops
    (liveOn s i).length ≤ 1 ∧
    (∀ l ∈ liveOn s i, ∀ r ∈ s.rows, r.id = i → r.lock = .held) ∧
    (∀ l ∈ liveOn s i, ∀ w, ∀ x, selOf s w = some x → x.id = i → claimHits s w = none) ∧
    (∀ l ∈ liveOn s i, ∀ c, candidate s = some c → c.id ≠ i) := by
  intro s
  have hb : Base s := base_run (base_init m) ops
  have he : Excl s := excl_run (base_init m) (excl_init m) ops ok
  refine ⟨liveOn_le_one _ _ he.oneLive, ?_, ?_, ?_⟩
  · intro l hl r hr hi
    simp only [liveOn, List.mem_filter, Bool.and_eq_true, beq_iff_eq] at hl
    exact he.heldOfLive l hl.1 hl.2.1 r hr (by omega)
  · intro l hl w x hx hxi
    simp only [liveOn, List.mem_filter, Bool.and_eq_true, beq_iff_eq] at hl
    simp only [claimHits, hx]
    cases hm : matched s x with
    | none => rfl
    | some r =>
      obtain ⟨h1, h2, h3⟩ := matched_mem hm
      have := he.selStale x (selOf_mem hx).1 l hl.1 hl.2.1 (by omega) r h1 h2
      omega
  · intro l hl c hc e
    simp only [liveOn, List.mem_filter, Bool.and_eq_true, beq_iff_eq] at hl
    obtain ⟨hm, hel⟩ := candidate_mem hc
    have := he.heldOfLive l hl.1 hl.2.1 c hm (by omega)
    simp [eligible, this] at hel

/-- a claim that succeeds in a disciplined run takes a row nobody holds -/
theorem claim_takes_unheld_row (m : Nat) (ops : List Op) (ok : disciplinedRun (init m) ops = true)
    (w : Nat) (r : Row) (h : claimHits (run (init m) ops) w = some r) :
    liveOn (run (init m) ops) r.id = [] := by
  cases hl : liveOn (run (init m) ops) r.id with
  | nil => rfl
  | cons l ls =>
    exfalso
    simp only [claimHits] at h
    cases hx : selOf (run (init m) ops) w with
    | none => simp [hx] at h
    | some x =>
      simp only [hx] at h
      obtain ⟨_, h2, _⟩ := matched_mem h
      have := (no_claim_while_locked_partial m ops ok r.id).2.2.1 l (by rw [hl]; simp) w x hx h2.symm
      simp [claimHits, hx, h] at this

/-- F14 witness: A polls; its lock lapses; B polls and holds the row; A's (stale) `reschedule` clears
    B's lock; C polls and gets the row while B still holds it. -/
def f14Ops : List Op :=
  [.act (.push false), .act (.poll 0), .act (.expire 1), .act (.poll 1),
   .act (.reschedule 0 1 false), .act (.poll 2)]

/-- F14b witness: A's lock lapses; B SELECTs the row; A's heartbeat `extend_lock` revives A's lock
    (no version bump); B's claim still matches the version and succeeds. -/
def f14bOps : List Op :=
  [.act (.push false), .act (.poll 0), .act (.expire 1), .act (.pollSelect 1),
   .act (.extend 0 1), .act (.pollClaim 1)]

/-- **The unrestricted statement is false** (model and code): two workers hold row 1 at once. -/
theorem no_claim_while_locked_counterexample :
    ¬ (∀ (m : Nat) (ops : List Op) (i : Nat), (liveOn (run (init m) ops) i).length ≤ 1) := by
  intro h
  exact absurd (h 3 f14Ops 1) (by decide)

theorem no_claim_while_locked_counterexample_extend :
    ¬ (∀ (m : Nat) (ops : List Op) (i : Nat), (liveOn (run (init m) ops) i).length ≤ 1) := by
  intro h
  exact absurd (h 3 f14bOps 1) (by decide)

-- the witnesses are not disciplined, and the last poll of F14 really hands the row out
example : disciplinedRun (init 3) f14Ops = false ∧ disciplinedRun (init 3) f14bOps = false := by decide
example : outOf (run (init 3) (f14Ops.take 5)) (.act (.poll 2)) = .got 1 0 3 := by decide
-- non-vacuity of the hypothesis: a disciplined run with two workers, a lapse and a re-claim
example : disciplinedRun (init 3) [.act (.push false), .act (.poll 0), .act (.extend 0 1), .act (.expire 1),
    .act (.poll 1), .act (.ack 0 1)] = true := by decide

/-! ## attempt limit and dead-letter queue -/

/-- the poll's SELECT never returns a row at or above the QUEUE's limit -/
theorem poll_respects_limit (s : State) (r : Row) (h : candidate s = some r) : r.attempts < s.maxAttempts := by
  have := (candidate_mem h).2
  simp [eligible] at this
  exact this.2

/-- **Never polled again.** In every reachable state a claim can only hit a row below the queue's
    limit (a SELECT result taken before the row reached the limit is stale by then). -/
theorem dlq_at_limit_never_claimed (m : Nat) (ops : List Op) (w : Nat) (r : Row)
    (h : claimHits (run (init m) ops) w = some r) : r.attempts < (run (init m) ops).maxAttempts := by
  have hb := base_run (base_init m) ops
  simp only [claimHits] at h
  cases hx : selOf (run (init m) ops) w with
  | none => simp [hx] at h
  | some x =>
    simp only [hx] at h
    obtain ⟨h1, h2, h3⟩ := matched_mem h
    have := hb.selAtt x (selOf_mem hx).1 r h1 h2 h3
    omega

/-- **Moved, not dropped.** The sweep removes exactly the rows with `attempts ≥ their max_attempts column`
    and each of them is in the DLQ afterwards with the same payload; older DLQ entries stay. -/
theorem dlq_at_limit_sweep (m : Nat) (ops : List Op) :
    let s := run (init m) ops
    let s' := next s (.act .sweep)
    s'.rows = s.rows.filter (fun r => decide (r.attempts < r.maxAtt)) ∧
    (∀ r ∈ s.rows, r.attempts ≥ r.maxAtt →
      ∃ d ∈ s'.dlq, d.tag = r.tag ∧ d.origId = r.id ∧ d.attempts = r.attempts ∧ d.bad = r.bad) ∧
    (∀ d ∈ s.dlq, d ∈ s'.dlq) := by
  intro s s'
  have hb : Base s := base_run (base_init m) ops
  have hu := unique_of_pairwise (fun r : Row => r.id) s.rows hb.idNodup
  obtain ⟨h1, h2, h3⟩ := sweep_spec (sweepIds s) s hb
  refine ⟨?_, ?_, h2⟩
  · show (applyPrims s ((sweepIds s).map Prim.moveToDlq)).rows = _
    rw [h1]
    apply List.filter_congr
    intro r hr
    have key : (sweepIds s).contains r.id = true ↔ r.attempts ≥ r.maxAtt := by
      rw [List.contains_iff_mem]
      simp only [sweepIds, List.mem_map, List.mem_filter, decide_eq_true_eq]
      constructor
      · rintro ⟨r0, ⟨hr0, hge⟩, hid⟩
        have : r0 = r := hu r0 hr0 r hr hid
        subst this; exact hge
      · intro hge; exact ⟨r, ⟨hr, hge⟩, rfl⟩
    rw [Bool.eq_iff_iff]
    simp only [Bool.not_eq_true', decide_eq_true_eq]
    rw [← Bool.not_eq_true, key]
    omega
  · intro r hr hge
    apply h3 r hr
    simp only [sweepIds, List.mem_map, List.mem_filter, decide_eq_true_eq]
    exact ⟨r, ⟨hr, hge⟩, rfl⟩

/-- **F13 (stranded row).** If a row's attempts reached the QUEUE's limit (`poll_one` filters on it) but not
    the ROW's own `max_attempts` column (`check_and_move_expired` filters on that) — which happens when
    `SqliteQueue(max_attempts=q)` is combined with transaction-pushed or replayed rows (column 10) and
    `q < 10` — then no sequence of polls, sweeps, pushes, replays, reschedules, extends, time steps or crashes
    ever delivers it or moves it to the DLQ: it stays in the queue with the same attempt count until
    someone deletes it by hand (explicit `ack` / `move_to_dlq` of that id). -/
theorem stranded_between_limits (m : Nat) (pre post : List Op) (r : Row)
    (hr : r ∈ (run (init m) pre).rows) (h1 : (run (init m) pre).maxAttempts ≤ r.attempts) (h2 : r.attempts < r.maxAtt)
    (hk : ∀ op ∈ post, opKeeps r.id op = true) :
    ∃ r' ∈ (run (run (init m) pre) post).rows, r'.id = r.id ∧ r'.attempts = r.attempts ∧
      (∀ w, ∀ r'', claimHits (run (run (init m) pre) post) w = some r'' → r''.id ≠ r.id) ∧
      (∀ c, candidate (run (run (init m) pre) post) = some c → c.id ≠ r.id) := by
  have hb := base_run (base_init m) pre
  have st : Stuck r.id r.attempts r.maxAtt (run (init m) pre) := ⟨hb, h1, h2, r, hr, rfl, rfl, rfl⟩
  obtain ⟨hb', g1, g2, r', hr', hi, ha, hm⟩ := stuck_run st post hk
  have hu := unique_of_pairwise (fun r : Row => r.id) _ hb'.idNodup
  refine ⟨r', hr', hi, ha, ?_, ?_⟩
  · intro w r'' hc e
    simp only [claimHits] at hc
    cases hx : selOf (run (run (init m) pre) post) w with
    | none => simp [hx] at hc
    | some x =>
      simp only [hx] at hc
      obtain ⟨q1, q2, q3⟩ := matched_mem hc
      have : r'' = r' := hu r'' q1 r' hr' (by omega)
      subst this
      have := hb'.selAtt x (selOf_mem hx).1 r'' q1 q2 q3
      omega
  · intro c hc e
    obtain ⟨q1, q2⟩ := candidate_mem hc
    have : c = r' := hu c q1 r' hr' (by omega)
    subst this
    simp [eligible] at q2
    omega

-- F13 is reachable: queue limit 1, a transaction-pushed row with its own limit 10, one failed attempt
example : ∃ r ∈ (run (init 1) [.act (.pushTxn 10 false), .act (.poll 0), .act (.reschedule 0 1 false)]).rows,
    (run (init 1) [.act (.pushTxn 10 false), .act (.poll 0), .act (.reschedule 0 1 false)]).maxAttempts ≤ r.attempts
      ∧ r.attempts < r.maxAtt := by decide
-- and with equal limits the sweep does move the exhausted row
example : (run (init 1) [.act (.push false), .act (.poll 0), .act (.reschedule 0 1 false), .act .sweep]).rows = []
    ∧ (dlqTags (run (init 1) [.act (.push false), .act (.poll 0), .act (.reschedule 0 1 false), .act .sweep])) = [0] := by
  decide

/-! ## replay -/

/-- **Replay preserves the payload.** `replay_dlq` removes the DLQ entry and inserts a row with the same
    payload (tag, deserialisability), a fresh id, attempts 0, unlocked and due. -/
theorem replay_preserves_payload (m : Nat) (ops : List Op) (d : Nat) (x : DRow)
    (hx : (run (init m) ops).dlq.find? (fun y => y.did == d) = some x) :
    let s := run (init m) ops
    let s' := next s (.act (.replay d))
    (∃ r ∈ s'.rows, r.id = s.nextId ∧ r.tag = x.tag ∧ r.bad = x.bad ∧ r.attempts = 0 ∧ r.lock = .free ∧
        r.deliverable = true) ∧
    (∀ y ∈ s'.dlq, y.did ≠ d) ∧ (∀ r ∈ s.rows, r ∈ s'.rows) := by
  intro s s'
  have e : s' = replay s d := rfl
  rw [e]
  unfold replay
  simp only [show s.dlq.find? (fun y => y.did == d) = some x from hx]
  refine ⟨⟨Row.mk s.nextId x.tag x.bad 0 columnDefaultMaxAtt 0 .free true true s.clock,
    by simp, rfl, rfl, rfl, rfl, rfl, rfl⟩, ?_, ?_⟩
  · intro y hy
    simp only [List.mem_filter, bne_iff_ne, ne_eq] at hy
    exact hy.2
  · intro r hr; simp [hr]

/-- a DLQ move keeps the payload too, so move + replay is the identity on payloads -/
theorem dlq_move_preserves_payload (m : Nat) (ops : List Op) (r : Row) (hr : r ∈ (run (init m) ops).rows) :
    ∃ d ∈ (next (run (init m) ops) (.act (.moveToDlq r.id))).dlq,
      d.tag = r.tag ∧ d.origId = r.id ∧ d.attempts = r.attempts ∧ d.bad = r.bad :=
  moveToDlq_moves hr (base_run (base_init m) ops)

-- non-vacuity: a message goes to the DLQ and comes back under a new row id with the same tag
example : queueTags (run (init 3) [.act (.push false), .act (.moveToDlq 1), .act (.replay 1)]) = [0]
    ∧ (run (init 3) [.act (.push false), .act (.moveToDlq 1), .act (.replay 1)]).rows.map (·.id) = [2] := by decide
-- a crash inside the DLQ move (before its single commit) leaves the message in the queue
example : queueTags (run (init 3) [.act (.push false), .crash (.moveToDlq 1) 0]) = [0] := by decide

end Stab.Props.C08
