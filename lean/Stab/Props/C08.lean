/-
  C08 — queue: at-least-once delivery, one holder at a time, nothing lost.

  All theorems are about the executable model `Stab.Queue` (lean/Stab/Model/Queue.lean), which mirrors
  the SQL of `queue/sqlite/queue.py`, `dlq.py` and `transaction.py:push_message`; the model is tied to the
  code by the Mode-A differential in harness/props/c08.py.  Invariants and their per-primitive
  preservation proofs are in `Stab/Lemmas/Queue.lean` and `Queue2.lean`.

  `run (init m) ops` ranges over EVERY op sequence: pushes (plain / transactional with its own limit /
  undeserialisable), split and atomic polls by any number of workers, ack / reschedule / extend by any worker
  at any time (also long after its lock lapsed, with the Message object it still has), the same calls with a
  hand-made Message (`rescheduleRaw` / `extendRaw`), expire / mature (abstract time), DLQ moves, sweeps,
  replays, and a crash at any commit of any of these.

  The model mirrors the code AFTER the repairs F13 (sweep also takes rows at the queue's limit) and F14 / F14b
  (reschedule / extend_lock guarded by the claim token the Message got from poll_one; extend_lock refuses a
  lapsed lock).  The old witnesses are kept below as regression examples.
-/
import Stab.Lemmas.Queue2

namespace Stab.Props.C08
open Stab Stab.Queue

/-! ## nothing lost, nothing duplicated -/

/-- **Conservation.** After any op sequence (crashes included) every payload that was ever pushed
    (`t < nextTag`) is in exactly one of: queue, dead-letter queue, acknowledged; and nothing else is. -/
theorem conservation (m : Nat) (ops : List Op) (t : Nat) :
    places (run (init m) ops) t = if t < (run (init m) ops).nextTag then 1 else 0 :=
  cons_run (base_init m) (cons_init m) ops t

/-- the three places are pairwise disjoint and cover the pushed payloads -/
theorem exactly_one_place (m : Nat) (ops : List Op) (t : Nat) (h : t < (run (init m) ops).nextTag) :
    let s := run (init m) ops
    ((queueTags s).count t = 1 ∧ (dlqTags s).count t = 0 ∧ s.acked.count t = 0) ∨
    ((queueTags s).count t = 0 ∧ (dlqTags s).count t = 1 ∧ s.acked.count t = 0) ∨
    ((queueTags s).count t = 0 ∧ (dlqTags s).count t = 0 ∧ s.acked.count t = 1) := by
  have := conservation m ops t
  simp only [h, if_true, places] at this
  intro s
  simp only [s]
  omega

/-- **At least once.** A pushed payload that has not been acknowledged is still in the queue or in the DLQ. -/
theorem at_least_once (m : Nat) (ops : List Op) (t : Nat)
    (hp : t < (run (init m) ops).nextTag) (hn : t ∉ (run (init m) ops).acked) :
    t ∈ queueTags (run (init m) ops) ∨ t ∈ dlqTags (run (init m) ops) := by
  have := conservation m ops t
  simp only [hp, if_true, places, List.count_eq_zero_of_not_mem hn] at this
  by_cases h : t ∈ queueTags (run (init m) ops)
  · exact Or.inl h
  · right
    have := List.count_eq_zero_of_not_mem h
    apply List.count_pos_iff.mp
    omega

/-- … and it is deliverable again once its delay and its lock have lapsed, as long as it is below the
    queue's attempt limit: the poll's SELECT then returns some row (never "nothing"). -/
theorem redeliverable (s : State) (r : Row) (hr : r ∈ s.rows) (ha : r.attempts < s.maxAttempts) :
    let s' := run s [.act (.mature r.id), .act (.expire r.id)]
    (∃ r' ∈ s'.rows, r'.id = r.id ∧ r'.tag = r.tag ∧ eligible s'.maxAttempts r' = true) ∧
    ∃ c, candidate s' = some c := by
  obtain ⟨r', hr', h1, h2, h3⟩ := eligible_after_mature_expire hr ha
  exact ⟨⟨r', hr', h1, h2, h3⟩, candidate_some_of_eligible hr' h3⟩

/-- ids are unique and never reused (what `DELETE/UPDATE … WHERE id = :id` relies on) -/
theorem ids_unique (m : Nat) (ops : List Op) :
    (run (init m) ops).rows.Pairwise (fun a b => a.id ≠ b.id) ∧
    ∀ r ∈ (run (init m) ops).rows, r.id < (run (init m) ops).nextId :=
  ⟨(base_run (base_init m) ops).idNodup, (base_run (base_init m) ops).idLt⟩

/-! ## one holder at a time -/

/-- **Claim exclusivity.** Once a claim `UPDATE … WHERE id = :id AND version = :version` has hit a row,
    no row ever matches that `(id, version)` again — whatever happens afterwards.  So of all claims
    based on one SELECTed `(id, version)`, at most one has `rowcount = 1`. -/
theorem claim_exclusive (m : Nat) (pre post : List Op) (w : Nat) (x : Sel) (r : Row)
    (hx : selOf (run (init m) pre) w = some x) (hr : matched (run (init m) pre) x = some r) :
    ∀ r' ∈ (run (next (run (init m) pre) (.act (.pollClaim w))) post).rows,
      ¬ (r'.id = x.id ∧ r'.version = x.version) := by
  intro r' hr' ⟨h1, h2⟩
  have hb := base_run (base_init m) pre
  have := (verGt_run (verGt_after_claim hb hx hr) post).2 r' hr' h1
  omega

/-- the second claimer of the same snapshot loses (`poll_one` returns `None`) -/
theorem second_claim_loses (m : Nat) (pre post : List Op) (w w' : Nat) (x x' : Sel) (r : Row)
    (hx : selOf (run (init m) pre) w = some x) (hr : matched (run (init m) pre) x = some r)
    (hx' : selOf (run (next (run (init m) pre) (.act (.pollClaim w))) post) w' = some x')
    (same : x'.id = x.id ∧ x'.version = x.version) :
    claimHits (run (next (run (init m) pre) (.act (.pollClaim w))) post) w' = none := by
  simp only [claimHits, hx']
  cases hm : matched (run (next (run (init m) pre) (.act (.pollClaim w))) post) x' with
  | none => rfl
  | some r' =>
    obtain ⟨h1, h2, h3⟩ := matched_mem hm
    exact absurd ⟨by omega, by omega⟩ (claim_exclusive m pre post w x r hx hr r' h1)

/-
  FULL STATEMENT over ALL op sequences, including `reschedule` / `extend_lock` called with a hand-made Message that
  carries no claim token (`rescheduleRaw`, `extendRaw`):
    ∀ m ops i, (liveOn (run (init m) ops) i).length ≤ 1
  is still false — for such a Message the code omits the guard (witness `…_counterexample_raw_message`).
  PROVED (no timing assumption any more, no side condition on who calls what when): for every op sequence in which
  reschedule / extend_lock are called with Messages handed out by poll_one — the only Messages the processor ever
  has — at most one worker holds a row.  Before the F14 repair this needed "the caller's lock has not lapsed".
-/

/-- **One holder.** For every op sequence of the poll → release protocol (any interleaving, any lapse, any crash):
    at most one live lease per row; a row with a live lease is locked and carries the holder's claim version;
    every pending SELECT result for it is stale; the poll's SELECT never returns it. -/
theorem no_claim_while_locked (m : Nat) (ops : List Op) (ok : ∀ op ∈ ops, isRaw op = false) (i : Nat) :
    let s := run (init m) ops
    (liveOn s i).length ≤ 1 ∧
    (∀ l ∈ liveOn s i, ∀ r ∈ s.rows, r.id = i → r.lock = .held ∧ r.version = l.ver) ∧
    (∀ l ∈ liveOn s i, ∀ w, ∀ x, selOf s w = some x → x.id = i → claimHits s w = none) ∧
    (∀ l ∈ liveOn s i, ∀ c, candidate s = some c → c.id ≠ i) := by
  intro s
  have hb : Base s := base_run (base_init m) ops
  have he : Excl s := excl_run (base_init m) (excl_init m) ops ok
  refine ⟨liveOn_le_one _ _ he.oneLive, ?_, ?_, ?_⟩
  · intro l hl r hr hi
    simp only [liveOn, List.mem_filter, Bool.and_eq_true, beq_iff_eq] at hl
    exact he.heldOfLive l hl.1 hl.2.1 r hr (by omega)
  · intro l hl w x hx hxi
    simp only [liveOn, List.mem_filter, Bool.and_eq_true, beq_iff_eq] at hl
    simp only [claimHits, hx]
    cases hm : matched s x with
    | none => rfl
    | some r =>
      obtain ⟨h1, h2, h3⟩ := matched_mem hm
      have := he.selStale x (selOf_mem hx).1 l hl.1 hl.2.1 (by omega) r h1 h2
      omega
  · intro l hl c hc e
    simp only [liveOn, List.mem_filter, Bool.and_eq_true, beq_iff_eq] at hl
    obtain ⟨hm, hel⟩ := candidate_mem hc
    have := (he.heldOfLive l hl.1 hl.2.1 c hm (by omega)).1
    simp [eligible, this] at hel

/-- a claim that succeeds takes a row nobody holds -/
theorem claim_takes_unheld_row (m : Nat) (ops : List Op) (ok : ∀ op ∈ ops, isRaw op = false)
    (w : Nat) (r : Row) (h : claimHits (run (init m) ops) w = some r) :
    liveOn (run (init m) ops) r.id = [] := by
  cases hl : liveOn (run (init m) ops) r.id with
  | nil => rfl
  | cons l ls =>
    exfalso
    simp only [claimHits] at h
    cases hx : selOf (run (init m) ops) w with
    | none => simp [hx] at h
    | some x =>
      simp only [hx] at h
      obtain ⟨_, h2, _⟩ := matched_mem h
      have := (no_claim_while_locked m ops ok r.id).2.2.1 l (by rw [hl]; simp) w x hx h2.symm
      simp [claimHits, hx, h] at this

/-- a stale `reschedule` (caller's claim token is older than the row's version) changes no row -/
theorem stale_reschedule_is_noop (s : State) (w i v : Nat) (d : Bool) (ht : tokOf s w i = some v)
    (hs : ∀ r ∈ s.rows, r.id = i → r.version ≠ v) : (next s (.act (.reschedule w i d))).rows = s.rows := by
  show (resched s w i d).rows = s.rows
  simp only [resched, ht]
  conv => rhs; rw [← List.map_id s.rows]
  apply List.map_congr_left
  intro r hr
  by_cases h : r.id = i
  · have := hs r hr h
    simp [h, this]
  · simp [h]

/-- the F14 schedule (A polls; its lock lapses; B polls; A reschedules with its old Message; C polls) … -/
def f14Ops : List Op :=
  [.act (.push false), .act (.poll 0), .act (.expire 1), .act (.poll 1),
   .act (.reschedule 0 1 false), .act (.poll 2)]

/-- … and the F14b schedule (A's lock lapses; B SELECTs; A's heartbeat extends; B claims) -/
def f14bOps : List Op :=
  [.act (.push false), .act (.poll 0), .act (.expire 1), .act (.pollSelect 1),
   .act (.extend 0 1), .act (.pollClaim 1)]

-- regression: on the repaired code both schedules are harmless — C gets nothing, B stays the only holder;
-- A's late heartbeat is refused (`extend_lock` returns False) and B's claim leaves A with a lapsed lease only
example : outOf (run (init 3) (f14Ops.take 5)) (.act (.poll 2)) = .none
    ∧ (liveOn (run (init 3) f14Ops) 1).map (·.w) = [1] := by decide
example : outOf (run (init 3) (f14bOps.take 4)) (.act (.extend 0 1)) = .bool false
    ∧ (liveOn (run (init 3) f14bOps) 1).map (·.w) = [1] := by decide

/-- the same schedule with a hand-made Message (no claim token) in A's reschedule -/
def f14RawOps : List Op :=
  [.act (.push false), .act (.poll 0), .act (.expire 1), .act (.poll 1),
   .act (.rescheduleRaw 1 false), .act (.poll 2)]

/-- **The statement over ALL ops (token-less Messages included) is false**: the unguarded legacy path remains
    for a Message that did not come from poll_one. -/
theorem no_claim_while_locked_counterexample_raw_message :
    ¬ (∀ (m : Nat) (ops : List Op) (i : Nat), (liveOn (run (init m) ops) i).length ≤ 1) := by
  intro h
  exact absurd (h 3 f14RawOps 1) (by decide)

-- non-vacuity: a protocol run with two workers, a lapse, a re-claim and late calls by the first worker
example : (∀ op ∈ f14Ops ++ f14bOps, isRaw op = false) ∧ isRaw (.act (.rescheduleRaw 1 false)) = true := by decide

/-! ## attempt limit and dead-letter queue -/

/-- the poll's SELECT never returns a row at or above the QUEUE's limit -/
theorem poll_respects_limit (s : State) (r : Row) (h : candidate s = some r) : r.attempts < s.maxAttempts := by
  have := (candidate_mem h).2
  simp [eligible] at this
  exact this.2

/-- **Never polled again.** In every reachable state a claim can only hit a row below the queue's
    limit (a SELECT result taken before the row reached the limit is stale by then). -/
theorem dlq_at_limit_never_claimed (m : Nat) (ops : List Op) (w : Nat) (r : Row)
    (h : claimHits (run (init m) ops) w = some r) : r.attempts < (run (init m) ops).maxAttempts := by
  have hb := base_run (base_init m) ops
  simp only [claimHits] at h
  cases hx : selOf (run (init m) ops) w with
  | none => simp [hx] at h
  | some x =>
    simp only [hx] at h
    obtain ⟨h1, h2, h3⟩ := matched_mem h
    have := hb.selAtt x (selOf_mem hx).1 r h1 h2 h3
    omega

/-- **Moved, not dropped.** The sweep removes exactly the rows with `attempts ≥ their max_attempts column` or
    `attempts ≥ the queue's max_attempts` (the limit `poll_one` filters on), and each of them is in the DLQ
    afterwards with the same payload; older DLQ entries stay. -/
theorem dlq_at_limit_sweep (m : Nat) (ops : List Op) :
    let s := run (init m) ops
    let s' := next s (.act .sweep)
    s'.rows = s.rows.filter (fun r => decide (r.attempts < r.maxAtt ∧ r.attempts < s.maxAttempts)) ∧
    (∀ r ∈ s.rows, (r.attempts ≥ r.maxAtt ∨ r.attempts ≥ s.maxAttempts) →
      ∃ d ∈ s'.dlq, d.tag = r.tag ∧ d.origId = r.id ∧ d.attempts = r.attempts ∧ d.bad = r.bad) ∧
    (∀ d ∈ s.dlq, d ∈ s'.dlq) := by
  intro s s'
  have hb : Base s := base_run (base_init m) ops
  have hu := unique_of_pairwise (fun r : Row => r.id) s.rows hb.idNodup
  obtain ⟨h1, h2, h3⟩ := sweep_spec (sweepIds s) s hb
  refine ⟨?_, ?_, h2⟩
  · show (applyPrims s ((sweepIds s).map Prim.moveToDlq)).rows = _
    rw [h1]
    apply List.filter_congr
    intro r hr
    have key : (sweepIds s).contains r.id = true ↔ (r.attempts ≥ r.maxAtt ∨ r.attempts ≥ s.maxAttempts) := by
      rw [List.contains_iff_mem]
      simp only [sweepIds, List.mem_map, List.mem_filter, Bool.or_eq_true, decide_eq_true_eq]
      constructor
      · rintro ⟨r0, ⟨hr0, hge⟩, hid⟩
        have : r0 = r := hu r0 hr0 r hr hid
        subst this; exact hge
      · intro hge; exact ⟨r, ⟨hr, hge⟩, rfl⟩
    rw [Bool.eq_iff_iff]
    simp only [Bool.not_eq_true', decide_eq_true_eq]
    rw [← Bool.not_eq_true, key]
    omega
  · intro r hr hge
    apply h3 r hr
    simp only [sweepIds, List.mem_map, List.mem_filter, Bool.or_eq_true, decide_eq_true_eq]
    exact ⟨r, ⟨hr, hge⟩, rfl⟩

/-- **No row is stranded (F13 repaired).** In every reachable state each queue row is either below the queue's
    limit — then it becomes eligible once its delay and lock lapse (`redeliverable`) — or at / above it — then the
    next sweep moves it to the DLQ with its payload.  (Before the repair a row with
    `queue.max_attempts ≤ attempts < its own max_attempts column` was neither.) -/
theorem never_stranded (m : Nat) (ops : List Op) (r : Row) (hr : r ∈ (run (init m) ops).rows) :
    let s := run (init m) ops
    (r.attempts < s.maxAttempts ∧
      ∃ r' ∈ (run s [.act (.mature r.id), .act (.expire r.id)]).rows, r'.id = r.id ∧ r'.tag = r.tag ∧
        eligible s.maxAttempts r' = true) ∨
    (s.maxAttempts ≤ r.attempts ∧ r ∉ (next s (.act .sweep)).rows ∧
      ∃ d ∈ (next s (.act .sweep)).dlq, d.tag = r.tag ∧ d.origId = r.id ∧ d.attempts = r.attempts) := by
  intro s
  by_cases h : r.attempts < s.maxAttempts
  · left
    obtain ⟨r', hr', h1, h2, h3⟩ := eligible_after_mature_expire hr h
    exact ⟨h, r', hr', h1, h2, h3⟩
  · right
    obtain ⟨h1, h2, _⟩ := dlq_at_limit_sweep m ops
    have h' : ¬ r.attempts < (run (init m) ops).maxAttempts := h
    refine ⟨Nat.le_of_not_lt h', ?_, ?_⟩
    · intro hin
      rw [h1] at hin
      simp only [List.mem_filter, decide_eq_true_eq] at hin
      omega
    · obtain ⟨d, hd, e1, e2, e3, _⟩ := h2 r hr (Or.inr (by omega))
      exact ⟨d, hd, e1, e2, e3⟩

-- the F13 schedule: queue limit 1, a transaction-pushed row with its own limit 10, one failed attempt: the row is
-- at the queue's limit but below its own …
example : ∃ r ∈ (run (init 1) [.act (.pushTxn 10 false), .act (.poll 0), .act (.reschedule 0 1 false)]).rows,
    (run (init 1) [.act (.pushTxn 10 false), .act (.poll 0), .act (.reschedule 0 1 false)]).maxAttempts ≤ r.attempts
      ∧ r.attempts < r.maxAtt := by decide
-- … and the sweep now moves it to the DLQ
example : (run (init 1) [.act (.pushTxn 10 false), .act (.poll 0), .act (.reschedule 0 1 false), .act .sweep]).rows = []
    ∧ dlqTags (run (init 1) [.act (.pushTxn 10 false), .act (.poll 0), .act (.reschedule 0 1 false), .act .sweep]) = [0] := by
  decide

/-! ## replay -/

/-- **Replay preserves the payload.** `replay_dlq` removes the DLQ entry and inserts a row with the same
    payload (tag, deserialisability), a fresh id, attempts 0, unlocked and due. -/
theorem replay_preserves_payload (m : Nat) (ops : List Op) (d : Nat) (x : DRow)
    (hx : (run (init m) ops).dlq.find? (fun y => y.did == d) = some x) :
    let s := run (init m) ops
    let s' := next s (.act (.replay d))
    (∃ r ∈ s'.rows, r.id = s.nextId ∧ r.tag = x.tag ∧ r.bad = x.bad ∧ r.attempts = 0 ∧ r.lock = .free ∧
        r.deliverable = true) ∧
    (∀ y ∈ s'.dlq, y.did ≠ d) ∧ (∀ r ∈ s.rows, r ∈ s'.rows) := by
  intro s s'
  have e : s' = replay s d := rfl
  rw [e]
  unfold replay
  simp only [show s.dlq.find? (fun y => y.did == d) = some x from hx]
  refine ⟨⟨Row.mk s.nextId x.tag x.bad 0 columnDefaultMaxAtt 0 .free true true s.clock,
    by simp, rfl, rfl, rfl, rfl, rfl, rfl⟩, ?_, ?_⟩
  · intro y hy
    simp only [List.mem_filter, bne_iff_ne, ne_eq] at hy
    exact hy.2
  · intro r hr; simp [hr]

/-- a DLQ move keeps the payload too, so move + replay is the identity on payloads -/
theorem dlq_move_preserves_payload (m : Nat) (ops : List Op) (r : Row) (hr : r ∈ (run (init m) ops).rows) :
    ∃ d ∈ (next (run (init m) ops) (.act (.moveToDlq r.id))).dlq,
      d.tag = r.tag ∧ d.origId = r.id ∧ d.attempts = r.attempts ∧ d.bad = r.bad :=
  moveToDlq_moves hr (base_run (base_init m) ops)

-- non-vacuity: a message goes to the DLQ and comes back under a new row id with the same tag
example : queueTags (run (init 3) [.act (.push false), .act (.moveToDlq 1), .act (.replay 1)]) = [0]
    ∧ (run (init 3) [.act (.push false), .act (.moveToDlq 1), .act (.replay 1)]).rows.map (·.id) = [2] := by decide
-- a crash inside the DLQ move (before its single commit) leaves the message in the queue
example : queueTags (run (init 3) [.act (.push false), .crash (.moveToDlq 1) 0]) = [0] := by decide

/-! ## pairs of operations — the sequential reference of the statement-level interleaving suite

  harness/props/c08.py runs two queue operations of two connections on the same message, one of them parked before each
  of its SQL statements while the other runs completely, and requires the real outcome to be the outcome of ONE of the
  two sequential orders `A;B` / `B;A` of this model (driver form `queue <m> <setup> <A> <B> <ab|ba>`, `showPairOrder`).
  What that reference guarantees, for EVERY reachable state, every two op groups and both orders, is stated here; the
  arbitration facts (`…_second_…`, `ack_excludes_move`, `move_excludes_ack`) are the model-level reason why the second of two
  conflicting operations finds nothing: its DELETE matches no row.  (In the code that DELETE must be the FIRST statement
  of the transaction — `DELETE … RETURNING` — for this to carry over to interleaved connections; the suite checks that.)
-/

theorem run_append (s : State) (a b : List Op) : run s (a ++ b) = run (run s a) b := by
  simp [run, List.foldl_append]

/-- the state `showPairOrder` prints is `run (run s a) b` resp. `run (run s b) a` -/
theorem runGroup_state (s : State) (ops : List Op) : (runGroup s ops).2 = run s ops := by
  induction ops generalizing s with
  | nil => rfl
  | cons op rest ih => simp only [runGroup, ih]; rfl

/-- **Conservation after any two operation groups in either order**, from every reachable state: every pushed payload
    is in exactly one of queue / DLQ / acknowledged, and nothing else is. -/
theorem pair_conservation (m : Nat) (pre a b : List Op) (t : Nat) :
    (places (run (run (run (init m) pre) a) b) t = if t < (run (run (run (init m) pre) a) b).nextTag then 1 else 0) ∧
    (places (run (run (run (init m) pre) b) a) t = if t < (run (run (run (init m) pre) b) a).nextTag then 1 else 0) := by
  have h1 := conservation m (pre ++ a ++ b) t
  have h2 := conservation m (pre ++ b ++ a) t
  rw [run_append, run_append] at h1 h2
  exact ⟨h1, h2⟩

/-- … and that is literally the state the driver's pair form prints -/
theorem pair_conservation_printed (m : Nat) (pre a b : List Op) (t : Nat) :
    let s := run (init m) pre
    let sab := (runGroup (runGroup s a).2 b).2
    let sba := (runGroup (runGroup s b).2 a).2
    (places sab t = if t < sab.nextTag then 1 else 0) ∧ (places sba t = if t < sba.nextTag then 1 else 0) := by
  simp only [runGroup_state]
  exact pair_conservation m pre a b t

/-- **One holder after any two protocol operation groups in either order.** -/
theorem pair_one_holder (m : Nat) (pre a b : List Op)
    (ok : ∀ op ∈ pre ++ a ++ b, isRaw op = false) (i : Nat) :
    (liveOn (run (run (run (init m) pre) a) b) i).length ≤ 1 ∧
    (liveOn (run (run (run (init m) pre) b) a) i).length ≤ 1 := by
  have h1 := (no_claim_while_locked m (pre ++ a ++ b) ok i).1
  have h2 := (no_claim_while_locked m (pre ++ b ++ a) (by
    intro op hop
    apply ok
    simp only [List.mem_append] at hop ⊢
    rcases hop with (h | h) | h
    · exact Or.inl (Or.inl h)
    · exact Or.inr h
    · exact Or.inl (Or.inr h)) i).1
  rw [run_append, run_append] at h1 h2
  exact ⟨h1, h2⟩

/-- **Two replays of one DLQ entry: one winner.** In ANY state the second `replay_dlq(d)` returns False and changes nothing. -/
theorem replay_second_fails (s : State) (d : Nat) :
    outOf (next s (.act (.replay d))) (.act (.replay d)) = .bool false ∧
    next (next s (.act (.replay d))) (.act (.replay d)) = next s (.act (.replay d)) := by
  have e : next s (.act (.replay d)) = replay s d := rfl
  have e2 : ∀ s', next s' (.act (.replay d)) = replay s' d := fun _ => rfl
  rw [e2, e2]
  have key : (replay s d).dlq.find? (fun y => y.did == d) = none := by
    unfold replay
    cases h : s.dlq.find? (fun x => x.did == d) with
    | none => simpa using h
    | some x => simp [List.find?_eq_none]
  refine ⟨?_, ?_⟩
  · show Out.bool ((replay s d).dlq.any (fun x => x.did == d)) = Out.bool false
    congr 1
    rw [List.any_eq_false]
    intro y hy hyd
    exact absurd hyd (by simpa using (List.find?_eq_none.mp key) y hy)
  · generalize replay s d = s1 at key
    unfold replay
    simp only [key]

/-- **Two DLQ moves of one row (two sweeps, sweep + move_to_dlq): one DLQ entry.** The second move finds no row. -/
theorem move_second_noop (s : State) (i : Nat) :
    next (next s (.act (.moveToDlq i))) (.act (.moveToDlq i)) = next s (.act (.moveToDlq i)) := by
  have e2 : ∀ s', next s' (.act (.moveToDlq i)) = moveToDlq s' i := fun _ => rfl
  rw [e2, e2]
  have key : (moveToDlq s i).rows.find? (fun r => r.id == i) = none := by
    unfold moveToDlq
    cases h : s.rows.find? (fun r => r.id == i) with
    | none => simpa using h
    | some x => simp [List.find?_eq_none]
  generalize moveToDlq s i = s1 at key
  unfold moveToDlq
  simp only [key]

/-- **Acknowledged, hence never parked.** After `ack` of row `i` a DLQ move of `i` (a sweep that SELECTed the row on its
    final attempt) moves nothing. -/
theorem ack_excludes_move (s : State) (w i : Nat) :
    next (next s (.act (.ack w i))) (.act (.moveToDlq i)) = next s (.act (.ack w i)) := by
  have e1 : next s (.act (.ack w i)) = ackRow s w i := rfl
  have e2 : ∀ s', next s' (.act (.moveToDlq i)) = moveToDlq s' i := fun _ => rfl
  rw [e2, e1]
  have key : (ackRow s w i).rows.find? (fun r => r.id == i) = none := by
    simp [ackRow, List.find?_eq_none]
  unfold moveToDlq
  simp only [key]

/-- **Parked, hence not acknowledged.** After the DLQ move of row `i` an `ack` of `i` deletes nothing: queue, DLQ and
    the acknowledged list stay as they are. -/
theorem move_excludes_ack (s : State) (w i : Nat) :
    let s1 := next s (.act (.moveToDlq i))
    let s2 := next s1 (.act (.ack w i))
    s2.rows = s1.rows ∧ s2.dlq = s1.dlq ∧ s2.acked = s1.acked := by
  intro s1 s2
  have e1 : s1 = moveToDlq s i := rfl
  have e2 : s2 = ackRow s1 w i := rfl
  have key : ∀ r ∈ s1.rows, r.id ≠ i := by
    rw [e1]
    unfold moveToDlq
    cases h : s.rows.find? (fun r => r.id == i) with
    | none =>
      intro r hr hi
      have := List.find?_eq_none.mp h r hr
      simp [hi] at this
    | some x =>
      intro r hr
      simp only [List.mem_filter, bne_iff_ne, ne_eq] at hr
      exact hr.2
  rw [e2]
  refine ⟨?_, rfl, ?_⟩
  · show s1.rows.filter (fun r => r.id != i) = s1.rows
    rw [List.filter_eq_self]
    intro r hr
    simpa using key r hr
  · show s1.acked ++ (s1.rows.filter (fun r => r.id == i)).map (·.tag) = s1.acked
    have : s1.rows.filter (fun r => r.id == i) = [] := by
      rw [List.filter_eq_nil_iff]
      intro r hr
      simpa using key r hr
    simp [this]

-- non-vacuity: a message held on its final attempt (queue limit 1); A = sweep, B = the holder's ack.  The two orders
-- end in DIFFERENT places (parked vs acknowledged) — each in exactly one
example :
    let s := run (init 1) [.act (.push false), .act (.poll 1)]
    dlqTags (run (run s [.act .sweep]) [.act (.ack 1 1)]) = [0] ∧ (run (run s [.act .sweep]) [.act (.ack 1 1)]).acked = [] ∧
    dlqTags (run (run s [.act (.ack 1 1)]) [.act .sweep]) = [] ∧ (run (run s [.act (.ack 1 1)]) [.act .sweep]).acked = [0] ∧
    places (run (run s [.act .sweep]) [.act (.ack 1 1)]) 0 = 1 ∧ places (run (run s [.act (.ack 1 1)]) [.act .sweep]) 0 = 1 := by
  decide
-- two sweeps of an exhausted row, two replays of one DLQ entry: one DLQ entry / one queue row in both orders
example : dlqTags (run (run (run (init 1) [.act (.push false), .act (.poll 2), .act (.reschedule 2 1 false)]) [.act .sweep]) [.act .sweep]) = [0] := by
  decide
example : queueTags (run (run (run (init 3) [.act (.push false), .act (.moveToDlq 1)]) [.act (.replay 1)]) [.act (.replay 1)]) = [0]
    ∧ outOf (run (init 3) [.act (.push false), .act (.moveToDlq 1), .act (.replay 1)]) (.act (.replay 1)) = .bool false := by
  decide
-- the driver's pair form on the first example (the harness's request for state exh-held-y, X = sweep, Y = ack):
--   `queue 1 push:0;poll:1 sweep ack:1:1`  ↦  `n,ok#-#1.1.0.0.1#-#-|n,ok#-#-#-#0`

end Stab.Props.C08
