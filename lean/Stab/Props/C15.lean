/-
  C15 — jump loops are bounded and always terminate (pure half).

  Part 1: the traversal functions of `handlers/jump_to_stage/traversal.py` as modelled in
  `Stab.Jump` (`resettable`, `downstream`, `skipped`, `isBackward` — the definitions the driver runs
  and the correspondence check compares with the real functions).  All theorems hold for EVERY
  graph: no acyclicity, no well-formedness (prerequisites may name missing stages, the root may be
  out of range, lists may contain duplicates) is assumed.

  Part 2: the jump budget (`jumpStep`, `runJumps`, `handleStep`, `runReqs`): what one handled
  JumpToStage writes to the per-stage `_jump_count` values, a measure (the total remaining budget)
  that strictly decreases, and the resulting sharp bounds on every schedule: every stage is the
  source of at most `max − count` accepted jumps, a workflow of `n` stages accepts at most `n · M`.
  The count is PER STAGE; since "fix: an incoming jump never lowers the target stage's jump
  counter" the target keeps `max(own count, source count + 1)`.  The behaviour before that fix
  (target count overwritten, 65 accepted jumps with the default 10 in a two-stage loop) is kept as
  the explicit `Legacy` variant with its counter-examples; the witness is in replays/C15.
-/
import Stab.Model.Jump
import Stab.Lemmas.C15

namespace Stab.Props.C15
open Stab.Jump Stab.Lemmas.C15

/-! ## Part 1 — traversal -/

/-- `S` is closed under the re-arm rule: a stage with at least one prerequisite, all of whose
    prerequisites are in `S`, is in `S` -/
def Closed (g : Graph) (S : Nat → Prop) : Prop :=
  ∀ i, prereqs g i ≠ [] → (∀ r ∈ prereqs g i, S r) → S i

/-- the reset scope of a jump to `root`: the root and the resettable stages -/
def Scope (g : Graph) (root : Nat) (i : Nat) : Prop := i = root ∨ i ∈ resettable g root

theorem scope_iff_fix (g : Graph) (root i : Nat) :
    Scope g root i ↔ i ∈ fix (cS g) g.length (g.length + 1) [root] := by
  rw [← resettable_fix]; simp [Scope]

theorem resettable_no_dup (g : Graph) (root : Nat) : (resettable g root).Nodup := by
  have h := fix_keeps_inv (cS g) (fresh_cS g) g.length root (g.length + 1) [root] (inv_root _ _)
  rw [← resettable_fix] at h
  exact (List.nodup_cons.mp h.1).2

theorem resettable_excludes_root (g : Graph) (root : Nat) : root ∉ resettable g root := by
  have h := fix_keeps_inv (cS g) (fresh_cS g) g.length root (g.length + 1) [root] (inv_root _ _)
  rw [← resettable_fix] at h
  exact (List.nodup_cons.mp h.1).1

/-- every resettable stage is a stage of the workflow -/
theorem resettable_in_range (g : Graph) (root i : Nat) (h : i ∈ resettable g root) : i < g.length := by
  have hinv := fix_keeps_inv (cS g) (fresh_cS g) g.length root (g.length + 1) [root] (inv_root _ _)
  rw [← resettable_fix] at hinv
  rcases hinv.2 i (List.mem_cons_of_mem _ h) with rfl | hlt
  · exact absurd h (resettable_excludes_root g i)
  · exact hlt

/-- a stage with prerequisites is a stage of the workflow (`prereqs` of a missing index is `[]`) -/
theorem prereqs_ne_nil_lt (g : Graph) (i : Nat) (h : prereqs g i ≠ []) : i < g.length := by
  unfold prereqs at h
  rcases Nat.lt_or_ge i g.length with hlt | hge
  · exact hlt
  · simp [List.getD, List.getElem?_eq_none hge] at h

/-- **fuel sufficiency**: `g.length + 1` passes reach the fixed point — one more pass over the
    final scope adds nothing — for every graph (cyclic ones included). -/
theorem resettable_fuel_suffices (g : Graph) (root : Nat) :
    (scopePass g (root :: resettable g root)).2 = [] := by
  rw [scopePass_eq, resettable_fix]
  exact fix_closed (cS g) (fresh_cS g) g.length root (g.length + 1) [root] (inv_root _ _) (by simp; omega)

/-- … and any larger fuel computes the same list -/
theorem resettable_fuel_irrelevant (g : Graph) (root k : Nat) :
    (scopeLoop g (g.length + 1 + k) [root] []).2 = resettable g root := by
  have h1 := resettable_fix_any_fuel g root (g.length + 1 + k)
  have hcl := fix_closed (cS g) (fresh_cS g) g.length root (g.length + 1) [root] (inv_root _ _) (by simp; omega)
  rw [fix_stable (cS g) g.length (g.length + 1) [root] hcl k, ← resettable_fix] at h1
  exact (List.cons.inj h1).2

/-- **closed**: the scope (root ∪ resettable) is closed under the re-arm rule -/
theorem resettable_closed (g : Graph) (root : Nat) : Closed g (Scope g root) := by
  intro i hne hall
  have hfix := resettable_fuel_suffices g root
  rw [scopePass_eq] at hfix
  simp only at hfix
  have hlt := prereqs_ne_nil_lt g i hne
  have hc := grow_nil (cS g) _ _ hfix i (List.mem_range.mpr hlt)
  by_cases hin : i ∈ root :: resettable g root
  · simpa [Scope] using hin
  · exfalso
    have : cS g (root :: resettable g root) i = true := by
      simp only [cS, Bool.and_eq_true, Bool.not_eq_eq_eq_not, Bool.not_true, List.all_eq_true,
        List.contains_eq_mem, decide_eq_true_eq, decide_eq_false_iff_not, List.isEmpty_eq_false_iff]
      exact ⟨hin, hne, fun r hr => by simpa [Scope] using hall r hr⟩
    rw [this] at hc; cases hc

/-- **least**: the scope is contained in every closed set that contains the root — together with
    `resettable_closed`: root ∪ resettable is THE least set containing the root and closed under
    "non-empty prerequisites all inside", i.e. "the target and the stages that depend only on it". -/
theorem resettable_least (g : Graph) (root : Nat) (S : Nat → Prop) (hroot : S root)
    (hcl : Closed g S) : ∀ i, Scope g root i → S i := by
  intro i hi
  rw [scope_iff_fix] at hi
  refine fix_inv (cS g) g.length S ?_ (g.length + 1) [root] (by simpa using hroot) i hi
  intro sc j hsc hc
  simp only [cS, Bool.and_eq_true, Bool.not_eq_eq_eq_not, Bool.not_true, List.all_eq_true,
    List.contains_eq_mem, decide_eq_true_eq, decide_eq_false_iff_not, List.isEmpty_eq_false_iff] at hc
  exact hcl j hc.2.1 (fun r hr => hsc r (hc.2.2 r hr))

/-- **supported / fan-in boundary**: a resettable stage has prerequisites and every one of them is
    in the scope.  Contrapositive (`fan_in_excluded`): a stage with a prerequisite outside the scope
    — a fan-in fed by a branch not involved in the jump — is never resettable. -/
theorem resettable_supported (g : Graph) (root i : Nat) (h : i ∈ resettable g root) :
    prereqs g i ≠ [] ∧ ∀ r ∈ prereqs g i, Scope g root r := by
  have hi : i ∈ fix (cS g) g.length (g.length + 1) [root] := by
    rw [← resettable_fix]; exact List.mem_cons_of_mem _ h
  have hne : i ∉ [root] := by
    simp only [List.mem_singleton]; rintro rfl; exact resettable_excludes_root g _ h
  obtain ⟨sc', _, h2, h3⟩ := fix_witness (cS g) g.length (g.length + 1) [root] i hi hne
  simp only [cS, Bool.and_eq_true, Bool.not_eq_eq_eq_not, Bool.not_true, List.all_eq_true,
    List.contains_eq_mem, decide_eq_true_eq, decide_eq_false_iff_not, List.isEmpty_eq_false_iff] at h3
  exact ⟨h3.2.1, fun r hr => (scope_iff_fix g root r).mpr (h2 r (h3.2.2 r hr))⟩

theorem fan_in_excluded (g : Graph) (root i p : Nat) (hp : p ∈ prereqs g i)
    (hout : ¬ Scope g root p) : i ∉ resettable g root :=
  fun h => hout ((resettable_supported g root i h).2 p hp)

/-- a stage without prerequisites (an initial stage) is never resettable -/
theorem initial_stage_excluded (g : Graph) (root i : Nat) (h : prereqs g i = []) :
    i ∉ resettable g root :=
  fun hi => (resettable_supported g root i hi).1 h

/-! ### `downstream` is reachability -/

/-- `Reach g r i`: a non-empty path `r → … → i` along "is a prerequisite of" edges -/
inductive Reach (g : Graph) : Nat → Nat → Prop where
  | single {r i : Nat} : r ∈ prereqs g i → Reach g r i
  | tail {r j i : Nat} : Reach g r j → j ∈ prereqs g i → Reach g r i

theorem Reach.lt {g : Graph} {r i : Nat} (h : Reach g r i) : i < g.length := by
  cases h with
  | single h => exact prereqs_ne_nil_lt g i (List.ne_nil_of_mem h)
  | tail _ h => exact prereqs_ne_nil_lt g i (List.ne_nil_of_mem h)

/-- the naive closure computed by `downLoop` -/
def closure (g : Graph) (root : Nat) : List Nat := downLoop g (g.length + 1) [root]

theorem closure_sound (g : Graph) (root i : Nat) (h : i ∈ closure g root) :
    i = root ∨ Reach g root i := by
  unfold closure at h
  rw [downLoop_eq] at h
  refine fix_inv (cD g) g.length (fun i => i = root ∨ Reach g root i) ?_ (g.length + 1) [root]
    (by intro x hx; simp at hx; exact Or.inl hx) i h
  intro sc j hsc hc
  simp only [cD, Bool.and_eq_true, Bool.not_eq_eq_eq_not, Bool.not_true, List.any_eq_true,
    List.contains_eq_mem, decide_eq_true_eq, decide_eq_false_iff_not] at hc
  obtain ⟨_, r, hr, hrs⟩ := hc
  rcases hsc r hrs with rfl | hreach
  · exact Or.inr (Reach.single hr)
  · exact Or.inr (Reach.tail hreach hr)

theorem closure_root (g : Graph) (root : Nat) : root ∈ closure g root := by
  unfold closure
  rw [downLoop_eq]
  obtain ⟨ext, h⟩ := fix_prefix (cD g) g.length (g.length + 1) [root]
  rw [h]; simp

theorem closure_step (g : Graph) (root j i : Nat) (hj : j ∈ closure g root)
    (hji : j ∈ prereqs g i) : i ∈ closure g root := by
  have hcl := fix_closed (cD g) (fresh_cD g) g.length root (g.length + 1) [root] (inv_root _ _) (by simp; omega)
  unfold closure at hj ⊢
  rw [downLoop_eq] at hj ⊢
  have hlt := prereqs_ne_nil_lt g i (List.ne_nil_of_mem hji)
  have hc := grow_nil (cD g) _ _ hcl i (List.mem_range.mpr hlt)
  by_cases hin : i ∈ fix (cD g) g.length (g.length + 1) [root]
  · exact hin
  · exfalso
    have : cD g (fix (cD g) g.length (g.length + 1) [root]) i = true := by
      simp only [cD, Bool.and_eq_true, Bool.not_eq_eq_eq_not, Bool.not_true, List.any_eq_true,
        List.contains_eq_mem, decide_eq_true_eq, decide_eq_false_iff_not]
      exact ⟨hin, j, hji, hj⟩
    rw [this] at hc; cases hc

theorem closure_complete (g : Graph) (root i : Nat) (h : Reach g root i) :
    i ∈ closure g root := by
  induction h with
  | single h => exact closure_step g root _ _ (closure_root g root) h
  | tail _ h ih => exact closure_step g root _ _ ih h

/-- **`get_downstream_stages` is reachability**: `i` is returned iff there is a non-empty path of
    prerequisite edges from the root to `i` — for every graph; on a cyclic graph the root itself is
    returned exactly when it lies on a cycle (what the Python DFS does). -/
theorem downstream_is_reachability (g : Graph) (root i : Nat) :
    i ∈ downstream g root ↔ Reach g root i := by
  unfold downstream
  simp only [List.mem_filter, List.mem_range, Bool.and_eq_true, List.contains_eq_mem,
    decide_eq_true_eq, Bool.or_eq_true, bne_iff_ne, ne_eq, List.any_eq_true]
  change (i < g.length ∧ i ∈ closure g root ∧
      (¬ i = root ∨ (∃ x, x ∈ closure g root ∧ ¬ x = root ∧ x ∈ prereqs g root) ∨ root ∈ prereqs g root))
    ↔ Reach g root i
  constructor
  · rintro ⟨_, hcl, hcase⟩
    rcases closure_sound g root i hcl with rfl | hr
    · rcases hcase with hne | ⟨x, hx, hxne, hxp⟩ | hself
      · exact absurd rfl hne
      · rcases closure_sound g i x hx with rfl | hr
        · exact absurd rfl hxne
        · exact Reach.tail hr hxp
      · exact Reach.single hself
    · exact hr
  · intro hr
    refine ⟨hr.lt, closure_complete g root i hr, ?_⟩
    by_cases hne : i = root
    · subst hne
      right
      cases hr with
      | single h => exact Or.inr h
      | tail hrj hji =>
        rename_i j
        by_cases hj : j = i
        · subst hj; exact Or.inr hji
        · exact Or.inl ⟨j, closure_complete g i j hrj, hj, hji⟩
    · exact Or.inl hne

/-- a jump is "backward" iff it is a self loop or the source is reachable from the target -/
theorem backward_iff (g : Graph) (s t : Nat) : isBackward g s t = true ↔ s = t ∨ Reach g t s := by
  unfold isBackward
  simp only [Bool.or_eq_true, beq_iff_eq, List.contains_eq_mem, decide_eq_true_eq]
  rw [downstream_is_reachability]

/-- every resettable stage is downstream of the root (the fan-in-respecting scope refines the
    naive closure) -/
theorem resettable_subset_downstream (g : Graph) (root i : Nat) (h : i ∈ resettable g root) :
    i ∈ downstream g root := by
  rw [downstream_is_reachability]
  have key : ∀ j, Scope g root j → j = root ∨ Reach g root j := by
    apply resettable_least g root (fun j => j = root ∨ Reach g root j) (Or.inl rfl)
    intro j hne hall
    obtain ⟨r, hr⟩ := List.exists_mem_of_ne_nil _ hne
    rcases hall r hr with rfl | hreach
    · exact Or.inr (Reach.single hr)
    · exact Or.inr (Reach.tail hreach hr)
  rcases key i (Or.inr h) with rfl | hr
  · exact absurd h (resettable_excludes_root g _)
  · exact hr

/-- **forward jump**: the stages marked SKIPPED are exactly those that depend only on the source,
    minus the target and everything downstream of the target. -/
theorem skipped_characterisation (g : Graph) (s t i : Nat) :
    i ∈ skipped g s t ↔ i ∈ resettable g s ∧ i ≠ t ∧ i ∉ downstream g t := by
  unfold skipped
  simp only [List.mem_filter, List.mem_range, Bool.and_eq_true, List.contains_eq_mem,
    decide_eq_true_eq, Bool.not_eq_eq_eq_not, Bool.not_true, decide_eq_false_iff_not,
    List.mem_cons, not_or]
  constructor
  · rintro ⟨_, h1, h2, h3⟩; exact ⟨h1, h2, h3⟩
  · rintro ⟨h1, h2, h3⟩; exact ⟨resettable_in_range g s i h1, h1, h2, h3⟩

/-- skipped stages: never the target, never the source, never anything the target leads to -/
theorem skipped_excludes (g : Graph) (s t i : Nat) (h : i ∈ skipped g s t) :
    i ≠ t ∧ i ≠ s ∧ ¬ Reach g t i := by
  rw [skipped_characterisation] at h
  refine ⟨h.2.1, ?_, fun hr => h.2.2 ((downstream_is_reachability g t i).mpr hr)⟩
  rintro rfl; exact resettable_excludes_root g _ h.1

/-- **what an accepted jump re-arms** (`reset_stage_for_retry`): exactly the target, the stages
    that depend only on it, and — on a backward jump — the source itself. -/
theorem rearm_exact (g : Graph) (s t i : Nat) (ht : t < g.length) (hs : s < g.length) :
    i ∈ (jumpEffect g s t).rearm ↔
      i = t ∨ i ∈ resettable g t ∨ (i = s ∧ isBackward g s t = true) := by
  unfold jumpEffect
  simp only [List.mem_filter, List.mem_range, List.contains_eq_mem, decide_eq_true_eq,
    List.mem_cons, List.mem_append, Bool.and_eq_true, bne_iff_ne, ne_eq]
  constructor
  · rintro ⟨_, h | h | ⟨h, _⟩⟩
    · exact Or.inl h
    · split at h
      · rename_i hc; simp at h; exact Or.inr (Or.inr ⟨h, hc.2⟩)
      · simp at h
    · exact Or.inr (Or.inl h)
  · rintro (rfl | h | ⟨rfl, hb⟩)
    · exact ⟨ht, Or.inl rfl⟩
    · by_cases his : i = s
      · subst his
        by_cases hit : i = t
        · exact ⟨hs, Or.inl hit⟩
        · refine ⟨hs, Or.inr (Or.inl ?_)⟩
          have hb : isBackward g i t = true :=
            (backward_iff g i t).mpr (Or.inr ((downstream_is_reachability g t i).mp
              (resettable_subset_downstream g t i h)))
          simp [hit, hb]
      · by_cases hit : i = t
        · exact ⟨resettable_in_range g t i h, Or.inl hit⟩
        · exact ⟨resettable_in_range g t i h, Or.inr (Or.inr ⟨h, his, hit⟩)⟩
    · by_cases hit : i = t
      · exact ⟨hs, Or.inl hit⟩
      · exact ⟨hs, Or.inr (Or.inl (by simp [hit, hb]))⟩

/-- a forward jump offers exactly `skipped` for SKIPPED and marks the source SUCCEEDED; a backward
    jump skips nothing -/
theorem skip_effect (g : Graph) (s t : Nat) :
    (jumpEffect g s t).skip = (if isBackward g s t then [] else skipped g s t)
    ∧ (jumpEffect g s t).sourceSucceeded = (s != t && !isBackward g s t) := by
  simp [jumpEffect]

/-! ## Part 2 — the jump budget -/

/-- a jump is accepted iff the source's count is below the effective max -/
theorem accepted_iff (count max : Int) : jumpAccepted count max = true ↔ count < max := by
  simp [jumpAccepted]

theorem step_accepted_iff (b : Budget) (cs : Counts) (s t : Nat) :
    (jumpStep b cs s t).2 = true ↔ countOf cs s < b.maxFor s := by
  unfold jumpStep; simp only
  split
  · rename_i h; simpa using (accepted_iff _ _).mp h
  · rename_i h
    have : ¬ countOf cs s < b.maxFor s := fun hlt => h ((accepted_iff _ _).mpr hlt)
    simpa using this

/-- **budget spent ⇒ rejected** (the handler then marks the source TERMINAL and completes it);
    counts are left untouched by a rejected jump -/
theorem budget_spent_is_terminal (b : Budget) (cs : Counts) (s t : Nat)
    (h : b.maxFor s ≤ countOf cs s) : jumpStep b cs s t = (cs, false) := by
  have : jumpAccepted (countOf cs s) (b.maxFor s) = false := by simp [jumpAccepted, h]
  simp [jumpStep, this]

theorem rejected_keeps_counts (b : Budget) (cs : Counts) (s t : Nat)
    (h : (jumpStep b cs s t).2 = false) : (jumpStep b cs s t).1 = cs := by
  have hge : ¬ countOf cs s < b.maxFor s := by
    intro hlt; rw [(step_accepted_iff b cs s t).mpr hlt] at h; cases h
  rw [budget_spent_is_terminal b cs s t (by omega)]

/-- **precedence of `_max_jumps`**: workflow context, else source stage context, else 10;
    `0` (or a negative number) disables jumps for a fresh stage -/
theorem effective_max_precedence (w s : Int) :
    effectiveMax (some w) (some s) = w ∧ effectiveMax (some w) none = w ∧
    effectiveMax none (some s) = s ∧ effectiveMax none none = 10 := by
  simp [effectiveMax]

theorem zero_disables_jumps (b : Budget) (cs : Counts) (s t : Nat) (hb : b.maxFor s ≤ 0)
    (hc : 0 ≤ countOf cs s) : (jumpStep b cs s t).2 = false := by
  rw [budget_spent_is_terminal b cs s t (by omega)]

theorem step_length (b : Budget) (cs : Counts) (s t : Nat) :
    (jumpStep b cs s t).1.length = cs.length := by
  unfold jumpStep; simp only; split <;> simp

/-- **what an accepted jump writes**: `count(source) + 1` to the source,
    `max(count(target), count(source) + 1)` to the target (never lowering it); every other stage
    keeps its count -/
theorem accepted_jump_writes (b : Budget) (cs : Counts) (s t : Nat) (hs : s < cs.length)
    (ht : t < cs.length) (hacc : (jumpStep b cs s t).2 = true) :
    countOf (jumpStep b cs s t).1 s = countOf cs s + 1 ∧
    countOf (jumpStep b cs s t).1 t = max (countOf cs t) (countOf cs s + 1) ∧
    (∀ k, k ≠ s → k ≠ t → countOf (jumpStep b cs s t).1 k = countOf cs k) ∧
    (jumpStep b cs s t).1.length = cs.length := by
  unfold jumpStep at hacc ⊢
  simp only at hacc ⊢
  split at hacc
  · rename_i h
    simp only [h, ↓reduceIte]
    refine ⟨?_, ?_, ?_, by simp⟩
    · unfold countOf
      by_cases hst : s = t
      · subst hst; simp [List.getD, hs]; omega
      · simp [List.getD, hs, Ne.symm hst]
    · unfold countOf; simp [List.getD, hs, ht]
    · intro k hks hkt
      unfold countOf
      simp [List.getD, Ne.symm hks, Ne.symm hkt]
  · simp at hacc

/-- **a count is never lowered**, by any handled jump, accepted or not -/
theorem counts_never_decrease (b : Budget) (cs : Counts) (s t : Nat) (hs : s < cs.length)
    (ht : t < cs.length) (k : Nat) : countOf cs k ≤ countOf (jumpStep b cs s t).1 k := by
  cases hacc : (jumpStep b cs s t).2
  · rw [rejected_keeps_counts b cs s t hacc]; exact Int.le_refl _
  · obtain ⟨h1, h2, h3, _⟩ := accepted_jump_writes b cs s t hs ht hacc
    by_cases hks : k = s
    · subst hks; omega
    · by_cases hkt : k = t
      · subst hkt; omega
      · rw [h3 k hks hkt]; exact Int.le_refl _

/-- remaining budget of stage `i`: how many more jumps it can be the source of -/
def remaining (b : Budget) (cs : Counts) (i : Nat) : Nat := (b.maxFor i - countOf cs i).toNat

/-- **the measure** Ψ(counts) = Σ_stages (max_s − count_s)⁺, the total remaining budget -/
def psi (b : Budget) (cs : Counts) : Nat := ((List.range cs.length).map (remaining b cs)).sum

/-- **`jump_measure_decreases`**: an accepted jump strictly decreases Ψ, whatever the source and
    target, self loop or not: the source's remaining budget drops by exactly one and no stage's
    remaining budget grows (counts are never lowered). -/
theorem jump_measure_decreases (b : Budget) (cs : Counts) (s t : Nat)
    (hs : s < cs.length) (ht : t < cs.length) (hacc : (jumpStep b cs s t).2 = true) :
    psi b (jumpStep b cs s t).1 + 1 ≤ psi b cs := by
  unfold psi
  rw [step_length]
  apply sum_range_lt cs.length (remaining b cs) (remaining b (jumpStep b cs s t).1) s hs
  · intro i _
    have := counts_never_decrease b cs s t hs ht i
    unfold remaining; omega
  · have h1 := (accepted_jump_writes b cs s t hs ht hacc).1
    have hlt := (step_accepted_iff b cs s t).mp hacc
    unfold remaining; rw [h1]; omega

/-- number of accepted jumps in a run -/
def accepted (flags : List Bool) : Nat := flags.count true

theorem run_length (b : Budget) : ∀ (js : List (Nat × Nat)) (cs : Counts),
    (runJumps b cs js).1.length = cs.length := by
  intro js
  induction js with
  | nil => intro cs; rfl
  | cons j js ih => intro cs; obtain ⟨s, t⟩ := j; simp only [runJumps]; rw [ih, step_length]

/-- **`jumps_bounded` (measure form, sharp)**: for ANY sequence of jump requests — arbitrary sources
    and targets, arbitrary order — the number of accepted jumps plus the final total remaining
    budget is at most the initial total remaining budget. -/
theorem jumps_bounded_potential (b : Budget) :
    ∀ (js : List (Nat × Nat)) (cs : Counts), (∀ j ∈ js, j.1 < cs.length ∧ j.2 < cs.length) →
      accepted (runJumps b cs js).2 + psi b (runJumps b cs js).1 ≤ psi b cs := by
  intro js
  induction js with
  | nil => intro cs _; simp [runJumps, accepted]
  | cons j js ih =>
    intro cs hr
    obtain ⟨s, t⟩ := j
    have hst := hr (s, t) List.mem_cons_self
    simp only [runJumps]
    have hlen := step_length b cs s t
    have ih' := ih (jumpStep b cs s t).1 (by
      intro j hj; rw [hlen]; exact hr j (List.mem_cons_of_mem _ hj))
    cases hacc : (jumpStep b cs s t).2
    · rw [rejected_keeps_counts b cs s t hacc] at ih' ⊢
      simp only [accepted, List.count_cons, Bool.false_eq_true, beq_iff_eq, ↓reduceIte,
        Nat.add_zero] at ih' ⊢
      exact ih'
    · have := jump_measure_decreases b cs s t hst.1 hst.2 hacc
      simp only [accepted, List.count_cons, beq_self_eq_true, ↓reduceIte] at ih' ⊢
      omega

/-- accepted jumps ≤ total remaining budget Σ_s (max_s − count_s)⁺ — attained by self loops
    (`self_loop_exact`, `bound_attained`) -/
theorem jumps_bounded_sharp (b : Budget) (cs : Counts) (js : List (Nat × Nat))
    (hr : ∀ j ∈ js, j.1 < cs.length ∧ j.2 < cs.length) :
    accepted (runJumps b cs js).2 ≤ psi b cs := by
  have := jumps_bounded_potential b js cs hr; omega

theorem psi_le (b : Budget) (M : Int) (hM : ∀ s, b.maxFor s ≤ M) (cs : Counts)
    (hcs : ∀ c ∈ cs, 0 ≤ c) : psi b cs ≤ cs.length * M.toNat := by
  apply sum_range_le_mul
  intro i hi
  have h0 : 0 ≤ countOf cs i := by
    unfold countOf; simp only [List.getD, List.getElem?_eq_getElem hi, Option.getD_some]
    exact hcs _ (List.getElem_mem hi)
  have := hM i
  unfold remaining; omega

/-- **`jumps_bounded`**: in a workflow with `n` stages whose `_jump_count`s start non-negative
    (absent = 0) and whose effective max is at most `M` for every source, ANY sequence of jump
    requests contains at most `n · M` accepted jumps. -/
theorem jumps_bounded (b : Budget) (M : Int) (hM : ∀ s, b.maxFor s ≤ M) (cs : Counts)
    (hcs : ∀ c ∈ cs, 0 ≤ c) (js : List (Nat × Nat))
    (hr : ∀ j ∈ js, j.1 < cs.length ∧ j.2 < cs.length) :
    accepted (runJumps b cs js).2 ≤ cs.length * M.toNat :=
  Nat.le_trans (jumps_bounded_sharp b cs js hr) (psi_le b M hM cs hcs)

/-- accepted jumps whose source is `s` -/
def acceptedFrom (s : Nat) : List (Nat × Nat) → List Bool → Nat
  | j :: js, ok :: fl => (if j.1 = s ∧ ok = true then 1 else 0) + acceptedFrom s js fl
  | _, _ => 0

/-- **each stage is the source of at most `max − count` accepted jumps** in any run, whatever the
    other stages do in between (they can only raise its count). -/
theorem per_source_bounded (b : Budget) (s : Nat) :
    ∀ (js : List (Nat × Nat)) (cs : Counts), (∀ j ∈ js, j.1 < cs.length ∧ j.2 < cs.length) →
      acceptedFrom s js (runJumps b cs js).2 ≤ remaining b cs s := by
  intro js
  induction js with
  | nil => intro cs _; simp [acceptedFrom]
  | cons j js ih =>
    intro cs hr
    obtain ⟨s', t⟩ := j
    have hst := hr (s', t) List.mem_cons_self
    simp only [runJumps, acceptedFrom]
    have hlen := step_length b cs s' t
    have ih' := ih (jumpStep b cs s' t).1 (by
      intro j hj; rw [hlen]; exact hr j (List.mem_cons_of_mem _ hj))
    have hmono := counts_never_decrease b cs s' t hst.1 hst.2 s
    cases hacc : (jumpStep b cs s' t).2
    · simp only [Bool.false_eq_true, and_false, ↓reduceIte, Nat.zero_add]
      unfold remaining at ih' ⊢; omega
    · by_cases hss : s' = s
      · subst hss
        have h1 := (accepted_jump_writes b cs s' t hst.1 hst.2 hacc).1
        have hlt := (step_accepted_iff b cs s' t).mp hacc
        simp only [and_self, ↓reduceIte]
        unfold remaining at ih' ⊢; rw [h1] at ih'; omega
      · simp only [hss, false_and, ↓reduceIte, Nat.zero_add]
        unfold remaining at ih' ⊢; omega

/-- events on the `_jump_count` map: a handled jump request, or a reset of any stage by any jump
    (`reset_stage_for_retry`, `reset_stage_to_skipped`, … none of which touches `_jump_count`) -/
inductive Ev where
  | jump (s t : Nat)
  | reset (i : Nat)

def runEvents (b : Budget) : Counts → List Ev → Counts × List Bool
  | cs, [] => (cs, [])
  | cs, .jump s t :: es =>
    let r := jumpStep b cs s t
    let rest := runEvents b r.1 es
    (rest.1, r.2 :: rest.2)
  | cs, .reset _ :: es => runEvents b cs es

def jumpsOf : List Ev → List (Nat × Nat)
  | [] => []
  | .jump s t :: es => (s, t) :: jumpsOf es
  | .reset _ :: es => jumpsOf es

/-- arbitrary interleaving with resets changes nothing: same counts, same accepted jumps -/
theorem runEvents_eq (b : Budget) : ∀ (es : List Ev) (cs : Counts),
    runEvents b cs es = runJumps b cs (jumpsOf es) := by
  intro es
  induction es with
  | nil => intro cs; rfl
  | cons e es ih =>
    intro cs
    cases e with
    | jump s t => simp only [runEvents, jumpsOf, runJumps, ih]
    | reset i => simp only [runEvents, jumpsOf, ih]

theorem runEvents_bounded (b : Budget) (M : Int) (hM : ∀ s, b.maxFor s ≤ M) (cs : Counts)
    (hcs : ∀ c ∈ cs, 0 ≤ c) (es : List Ev)
    (hr : ∀ j ∈ jumpsOf es, j.1 < cs.length ∧ j.2 < cs.length) :
    accepted (runEvents b cs es).2 ≤ cs.length * M.toNat := by
  rw [runEvents_eq]; exact jumps_bounded b M hM cs hcs _ hr

/-- consecutive jumps from one source (to any targets): at most `max − count` are accepted -/
theorem single_source_bounded (b : Budget) (s : Nat) (ts : List Nat) (cs : Counts)
    (hs : s < cs.length) (ht : ∀ t ∈ ts, t < cs.length) :
    accepted (runJumps b cs (ts.map (fun t => (s, t)))).2 ≤ remaining b cs s := by
  refine Nat.le_trans ?_ (per_source_bounded b s (ts.map (fun t => (s, t))) cs (by
    intro j hj; obtain ⟨t, htm, rfl⟩ := List.mem_map.mp hj; exact ⟨hs, ht t htm⟩))
  -- every request has source `s`, so `accepted = acceptedFrom s`
  have key : ∀ (ts : List Nat) (fl : List Bool),
      fl.length = ts.length → accepted fl = acceptedFrom s (ts.map (fun t => (s, t))) fl := by
    intro ts
    induction ts with
    | nil => intro fl h; cases fl <;> simp_all [accepted, acceptedFrom]
    | cons t ts ih =>
      intro fl h
      cases fl with
      | nil => simp at h
      | cons ok fl =>
        simp only [List.length_cons, Nat.add_right_cancel_iff] at h
        have := ih fl h
        cases ok <;> simp_all [accepted, acceptedFrom] <;> omega
  have hlen : ∀ (js : List (Nat × Nat)) (cs : Counts), (runJumps b cs js).2.length = js.length := by
    intro js
    induction js with
    | nil => intro cs; rfl
    | cons j js ih => intro cs; obtain ⟨a, c⟩ := j; simp [runJumps, ih]
  rw [key ts _ (by rw [hlen]; simp)]
  exact Nat.le_refl _

/-- **`self_loop_exact`**: a task that asks `k` times in a row to jump to its own stage is granted
    exactly `min(k, max − count)` jumps; the next request is rejected (stage TERMINAL). -/
theorem self_loop_exact (b : Budget) (s : Nat) : ∀ (k : Nat) (cs : Counts), s < cs.length →
    accepted (runJumps b cs (List.replicate k (s, s))).2 = min k (remaining b cs s) := by
  intro k
  induction k with
  | zero => intro cs _; simp [runJumps, accepted]
  | succ k ih =>
    intro cs hs
    simp only [List.replicate_succ, runJumps]
    have hlen := step_length b cs s s
    have ih' := ih (jumpStep b cs s s).1 (by rw [hlen]; exact hs)
    cases hacc : (jumpStep b cs s s).2
    · have hge : ¬ countOf cs s < b.maxFor s := by
        intro hlt; rw [(step_accepted_iff b cs s s).mpr hlt] at hacc; cases hacc
      rw [rejected_keeps_counts b cs s s hacc] at ih' ⊢
      simp only [accepted, List.count_cons, Bool.false_eq_true, beq_iff_eq, ↓reduceIte,
        Nat.add_zero] at ih' ⊢
      unfold remaining at ih' ⊢; omega
    · have hw := (accepted_jump_writes b cs s s hs hs hacc).1
      have hlt := (step_accepted_iff b cs s s).mp hacc
      simp only [accepted, List.count_cons, beq_self_eq_true, ↓reduceIte] at ih' ⊢
      unfold remaining at ih' ⊢; rw [hw] at ih'; omega

/-! ### stale JumpToStage messages (source stage no longer RUNNING) -/

/-- a JumpToStage whose source is not RUNNING is ignored: no count (and no status) is written -/
theorem stale_jump_ignored (b : Budget) (cs : Counts) (s t : Nat) (g : Graph) :
    handleStep b cs false s t = (cs, .ignored) ∧ handleEffect g false s t = none := by
  simp [handleStep, handleEffect]

/-- the requests that are actually processed -/
def runningOf : List (Nat × Nat × Bool) → List (Nat × Nat)
  | [] => []
  | (s, t, true) :: rs => (s, t) :: runningOf rs
  | (_, _, false) :: rs => runningOf rs

/-- stale messages change nothing: counts and number of accepted jumps are those of the run that
    contains only the messages from RUNNING sources -/
theorem runReqs_eq (b : Budget) : ∀ (rs : List (Nat × Nat × Bool)) (cs : Counts),
    (runReqs b cs rs).1 = (runJumps b cs (runningOf rs)).1 ∧
    (runReqs b cs rs).2.count .accepted = accepted (runJumps b cs (runningOf rs)).2 := by
  intro rs
  induction rs with
  | nil => intro cs; simp [runReqs, runJumps, runningOf, accepted]
  | cons r rs ih =>
    intro cs
    obtain ⟨s, t, run⟩ := r
    cases run
    · simp only [runReqs, handleStep, runningOf, Bool.not_false, ↓reduceIte]
      have := ih cs
      simp only [List.count_cons, beq_iff_eq, reduceCtorEq, ↓reduceIte, Nat.add_zero]
      exact this
    · simp only [runReqs, handleStep, runningOf, runJumps, Bool.not_true, Bool.false_eq_true, ↓reduceIte]
      have := ih (jumpStep b cs s t).1
      refine ⟨this.1, ?_⟩
      cases hacc : (jumpStep b cs s t).2 <;>
        simp_all [accepted]

theorem reqs_bounded (b : Budget) (M : Int) (hM : ∀ s, b.maxFor s ≤ M) (cs : Counts)
    (hcs : ∀ c ∈ cs, 0 ≤ c) (rs : List (Nat × Nat × Bool))
    (hr : ∀ j ∈ runningOf rs, j.1 < cs.length ∧ j.2 < cs.length) :
    (runReqs b cs rs).2.count .accepted ≤ cs.length * M.toNat := by
  rw [(runReqs_eq b rs cs).2]; exact jumps_bounded b M hM cs hcs _ hr

/-! ### the behaviour BEFORE "fix: an incoming jump never lowers the target stage's jump counter" -/

namespace Legacy

/-- the old write: the target's count is OVERWRITTEN with `source count + 1` (possibly lowering it) -/
def jumpStep (b : Budget) (cs : Counts) (src tgt : Nat) : Counts × Bool :=
  let c := countOf cs src
  if jumpAccepted c (b.maxFor src) then ((cs.set src (c + 1)).set tgt (c + 1), true) else (cs, false)

def runJumps (b : Budget) : Counts → List (Nat × Nat) → Counts × List Bool
  | cs, [] => (cs, [])
  | cs, (s, t) :: js =>
    let r := jumpStep b cs s t
    let rest := runJumps b r.1 js
    (rest.1, r.2 :: rest.2)

/-- two stages, `_max_jumps = 2`, five requests `A→A, A→A, B→A, A→A, B→A` were ALL accepted
    (B→A overwrote A's count 2 with B's count + 1 = 1); stage A alone redirected 3 > 2 times.
    This is replays/C15/jump-count-lowered.json (finding fixed in /repo). -/
theorem jumps_exceed_max_counterexample :
    (runJumps { wf := some 2, stage := [none, none] } [0, 0] [(0, 0), (0, 0), (1, 0), (0, 0), (1, 0)]).2
      = [true, true, true, true, true] := by decide

end Legacy

/-- the requests of the loop "A redirects to itself while it can, then B sends it back once" -/
def pingRound (k : Nat) : List (Nat × Nat) := List.replicate k (0, 0) ++ [(1, 0)]

def pingAll : Nat → List (Nat × Nat)
  | 0 => []
  | k + 1 => pingRound (k + 1) ++ pingAll k

namespace Legacy
/-- with the DEFAULT budget (no `_max_jumps` anywhere ⇒ 10) the old code accepted 65 jumps in a
    two-stage workflow, 55 of them from stage A -/
theorem default_budget_65_jumps_counterexample :
    (runJumps { wf := none, stage := [none, none] } [0, 0] (pingAll 10)).2 = List.replicate 65 true
    ∧ (pingAll 10).length = 65
    ∧ ((pingAll 10).filter (fun j => j.1 == 0)).length = 55 := by
  decide +kernel
end Legacy

/-- the same request sequences on the CURRENT model: the fourth request of the small witness is
    rejected (A's count stayed 2), and of the 65 default-budget requests exactly 20 = n · M are
    accepted -/
theorem legacy_witnesses_now_bounded :
    (runJumps { wf := some 2, stage := [none, none] } [0, 0] [(0, 0), (0, 0), (1, 0), (0, 0), (1, 0)]).2
      = [true, true, true, false, true]
    ∧ accepted (runJumps { wf := none, stage := [none, none] } [0, 0] (pingAll 10)).2 = 20 := by
  decide +kernel

/-- the bound `n · M` is attained: three stages looping on themselves, `_max_jumps = 2` -/
theorem bound_attained :
    accepted (runJumps { wf := some 2, stage := [] } [0, 0, 0]
      [(0, 0), (1, 1), (2, 2), (0, 0), (1, 1), (2, 2), (0, 0), (1, 1), (2, 2)]).2 = 3 * 2 := by
  decide

/-! ## non-vacuity -/

-- diamond 0 → {1,2} → 3, side input 4 → 5 ← 3 : a jump back to 0 re-arms 1,2,3 but not the fan-in 5
private def gDiamond : Graph := [[], [0], [0], [1, 2], [], [3, 4]]
example : resettable gDiamond 0 = [1, 2, 3] := by decide
example : downstream gDiamond 0 = [1, 2, 3, 5] := by decide
example : 5 ∉ resettable gDiamond 0 := fan_in_excluded gDiamond 0 5 4 (by decide) (by unfold Scope; decide)
example : Closed gDiamond (Scope gDiamond 0) := resettable_closed _ _
-- forward jump 0 → 3 over the diamond skips 1 and 2
example : skipped gDiamond 0 3 = [1, 2] := by decide
example : isBackward gDiamond 3 0 = true ∧ isBackward gDiamond 0 3 = false := by decide
example : (jumpEffect gDiamond 3 1).rearm = [1, 3] := by decide
-- the scan needs several passes when stages are listed against the dependency order
example : resettable [[1], [2], [3], []] 3 = [2, 1, 0] := by decide
-- cyclic graph: still a fixed point, the root is its own descendant
example : downstream [[1], [0]] 0 = [0, 1] ∧ resettable [[1], [0]] 0 = [1] := by decide
example : Reach gDiamond 0 5 := Reach.tail (Reach.tail (Reach.single (by decide : 0 ∈ prereqs gDiamond 1)) (by decide : 1 ∈ prereqs gDiamond 3)) (by decide : 3 ∈ prereqs gDiamond 5)
-- budget: an accepted jump, a rejected one, the precedence
example : jumpStep { wf := some 2, stage := [none, some 7] } [1, 5] 0 1 = ([2, 5], true) := by decide
example : jumpStep { wf := some 2, stage := [none, some 7] } [2, 0] 0 1 = ([2, 0], false) := by decide
example : jumpStep { wf := none, stage := [none, some 7] } [0, 6] 1 0 = ([7, 7], true) := by decide
example : psi { wf := some 2, stage := [] } [0, 0] = 4 ∧ psi { wf := some 2, stage := [] } [2, 1] = 1 := by decide
-- the target's count is never lowered: A (count 0) jumps to B (count 5): B keeps 5
example : jumpStep { wf := some 9, stage := [] } [0, 5] 0 1 = ([1, 5], true) := by decide
-- a stale message (source not RUNNING) is ignored
example : runReqs { wf := some 2, stage := [] } [0, 0] [(0, 1, false), (0, 1, true)] = ([1, 1], [.ignored, .accepted]) := by decide
-- a self loop asking 5 times with max 3 is granted exactly 3
example : accepted (runJumps { wf := some 3, stage := [none] } [0] (List.replicate 5 (0, 0))).2 = 3 := by decide
example : ∃ (b : Budget) (cs : Counts), (jumpStep b cs 0 1).2 = true ∧ 0 < cs.length ∧ 1 < cs.length :=
  ⟨{ wf := some 2, stage := [] }, [1, 5], by decide, by decide, by decide⟩

end Stab.Props.C15
