/- Property theorems for C15 — to be filled in. -/
namespace Stab.Props.C15
end Stab.Props.C15
