/-
  C17 — After a cancel is accepted no further task starts and the workflow ends.

  Engine model (`Stab.Engine`, tied to the handlers by the Mode-A trace differential).
  "Cancel accepted" = the durable flag `canceled` (pipeline_executions.is_canceled) is set, which only
  `CancelWorkflowHandler`'s first commit does.  The ledger is the list of task executions.
-/
import Stab.Lemmas.EngineBasic
import Stab.Lemmas.EngineClaim
import Stab.Lemmas.EngineCancel
import Stab.Lemmas.EngineCrash

namespace Stab.Props.C17
open Stab Stab.Engine

/-- The cancel flag is monotone: no operation of the engine ever clears it. -/
theorem canceled_monotone (c : Cfg) (s : State) (op : Op) (h : s.canceled = true) :
    (step c s op).canceled = true := by
  cases op with
  | deliver id => simp only [step]; split; exact h; exact deliverRow_canceled_mono c s _ _ _ h
  | deliverNoAck id => simp only [step]; split; exact h; exact deliverRow_canceled_mono c s _ _ _ h
  | crash id k => simp only [step]; split; exact h; exact deliverRow_canceled_mono c s _ _ _ h
  | cancel => exact applyEff_canceled_mono _ _ h
  | signal i p => exact applyEff_canceled_mono _ _ h
  | sweep => exact applyTxn_canceled_mono _ _ h
  | nested id inner =>
    rw [step_nested_of_canceled c s id inner h]
    simp only [step]; split; exact h; exact deliverRow_canceled_mono c s _ _ _ h

/-- **No task begins executing once the cancel is durable** — one step, every operation
    (deliveries in any order, redeliveries, crashes at any commit, sweeps, signals). -/
theorem no_exec_after_cancel_step (c : Cfg) (s : State) (op : Op) (h : s.canceled = true) :
    (step c s op).ledger = s.ledger := by
  cases op with
  | deliver id => simp only [step]; split; rfl; exact deliverRow_ledger_of_canceled c s _ _ _ h
  | deliverNoAck id => simp only [step]; split; rfl; exact deliverRow_ledger_of_canceled c s _ _ _ h
  | crash id k => simp only [step]; split; rfl; exact deliverRow_ledger_of_canceled c s _ _ _ h
  | cancel => simp [step]
  | signal i p => simp [step]
  | sweep => simp [step]
  | nested id inner =>
    rw [step_nested_of_canceled c s id inner h]
    simp only [step]; split; rfl; exact deliverRow_ledger_of_canceled c s _ _ _ h

/-- … and therefore along every schedule, of any length. -/
theorem no_exec_after_cancel (c : Cfg) (s : State) (ops : List Op) (h : s.canceled = true) :
    (ops.foldl (step c) s).ledger = s.ledger ∧ (ops.foldl (step c) s).canceled = true := by
  induction ops generalizing s with
  | nil => exact ⟨rfl, h⟩
  | cons op ops ih =>
    simp only [List.foldl]
    have h' := canceled_monotone c s op h
    have := ih (step c s op) h'
    exact ⟨by rw [this.1, no_exec_after_cancel_step c s op h], this.2⟩

/-- Handling `CancelWorkflow` on an unfinished workflow sets the flag and queues a `CancelStage` for
    every stage that is not complete, plus a `CompleteWorkflow`, in its own commit. -/
theorem cancel_fans_out (c : Cfg) (s : State) (id : Nat) (h : s.wfStatus.isComplete = false) :
    hCancelWorkflow c s id =
      [[.setCanceled],
       [.mark id] ++ ((List.range c.n).filter (fun i => !(s.stage i).status.isComplete)).map (fun i => Eff.push (.cancelStage i))
         ++ [.push (.completeWorkflow 0)]] := by
  simp [hCancelWorkflow, h]

/-- F40: a `CancelWorkflow` that is (re)delivered after the workflow finished - the worker died between the commit
    that set the flag and the fan-out commit - still queues a `CancelStage` for every stage that is not complete, so
    a stage that never started does not stay NOT_STARTED in a canceled workflow. -/
theorem cancel_after_finish_cancels_leftovers (c : Cfg) (s : State) (id i : Nat)
    (h : s.wfStatus.isComplete = true) (hc : s.canceled = true) (hi : i < c.n)
    (hs : (s.stage i).status.isComplete = false) :
    Eff.push (.cancelStage i) ∈ (hCancelWorkflow c s id).flatten ∧ Eff.mark id ∈ (hCancelWorkflow c s id).flatten := by
  have hne : ((List.range c.n).filter (fun i => !(s.stage i).status.isComplete)).isEmpty = false := by
    rw [List.isEmpty_eq_false_iff_exists_mem]
    exact ⟨i, List.mem_filter.mpr ⟨List.mem_range.mpr hi, by simp [hs]⟩⟩
  simp only [hCancelWorkflow, h, hc, hne]
  simp
  exact ⟨hi, hs⟩

/-- ... and when the flag was never set (the request arrives after the workflow finished) it is consumed without effect. -/
theorem cancel_after_finish_without_flag_is_inert (c : Cfg) (s : State) (id : Nat)
    (h : s.wfStatus.isComplete = true) (hc : s.canceled = false) :
    hCancelWorkflow c s id = [[.mark id]] := by
  simp [hCancelWorkflow, h, hc]

/-- F60: `StartWorkflow` for a workflow that was canceled before it started (the flag is set, the status still NOT_STARTED)
hands it to the regular cancel path - it pushes `CancelWorkflow`, whose handler cancels every stage and queues the
`CompleteWorkflow` that gives the workflow its final status - instead of consuming the message without effect. -/
theorem start_of_canceled_workflow_goes_to_cancel_path (c : Cfg) (s : State) (id : Nat)
    (hw : s.wfStatus = .notStarted) (hc : s.canceled = true) :
    hStartWorkflow c s id = [[.push .cancelWorkflow]] := by
  simp [hStartWorkflow, hw, hc]

/-- F56: a `JumpToStage` handled after a cancel was accepted is consumed without effect: it neither completes its source
stage nor resets or skips any other stage, for every source, target and state. -/
theorem jump_after_cancel_is_inert (c : Cfg) (s : State) (id src tgt : Nat) (hc : s.canceled = true) :
    hJumpToStage c s id src tgt = [[.mark id]] := by
  simp [hJumpToStage, hc]

/-- `CancelStage` drives every incomplete stage to CANCELED together with its unfinished tasks. -/
theorem cancel_stage_cancels (c : Cfg) (s : State) (id i : Nat) (h : (s.stage i).status.isComplete = false) :
    ∃ st', hCancelStage c s id i = [[.setStage i st', .mark id]] ∧ st'.status = .canceled ∧
      ∀ x ∈ st'.tasks, x.status ≠ .notStarted ∧ x.status ≠ .running := by
  refine ⟨_, by simp [hCancelStage, h]; rfl, rfl, ?_⟩
  intro x hx
  simp only [List.mem_map] at hx
  obtain ⟨y, _, rfl⟩ := hx
  split <;> simp_all

/-- **A StartStage that arrives after the cancel is durable starts nothing** (F26 repair): on a NOT_STARTED stage it writes no
    stage, task or workflow state at all — in particular a StartStage overtaking the stage's CancelStage can no longer complete
    a task-less or disabled stage SUCCEEDED / SKIPPED.  F66 repair: while the workflow is not final it finishes the cancel for
    the workflow itself (a cancel that only set the flag has produced no fan-out): it marks itself and queues a
    `CancelWorkflow`, whose handler fans out CancelStage to every unfinished stage and queues the `CompleteWorkflow`; in a final
    workflow it does nothing. -/
theorem startStage_after_cancel_is_inert (c : Cfg) (s : State) (id i r : Nat)
    (hc : s.canceled = true) (hn : (s.stage i).status = .notStarted) :
    hStartStage c s id i r =
      if s.wfStatus.isComplete then [] else [[.mark id, .push .cancelWorkflow]] := by
  cases hw : s.wfStatus.isComplete <;> simp [hStartStage, hc, hn, hw]

/-- … and a SkipStage that arrives after the cancel is durable skips nothing: a canceled workflow can no longer end
    SUCCEEDED because its remaining stages were all SKIPPED behind the cancel; on a stage that has not started it queues the
    same `CancelWorkflow` (F66), otherwise nothing. -/
theorem skipStage_after_cancel_is_inert (c : Cfg) (s : State) (id i : Nat) (hc : s.canceled = true) :
    hSkipStage c s id i =
      if (s.stage i).status == .notStarted && !s.wfStatus.isComplete
      then [[.mark id, .push .cancelWorkflow]] else [] := by
  cases hw : s.wfStatus.isComplete <;> cases hs : ((s.stage i).status == Status.notStarted) <;>
    simp_all [hSkipStage, bne]

/-- **No stage is claimed (NOT_STARTED → RUNNING) once the cancel is durable**, whatever message is handled. -/
theorem no_claim_after_cancel (c : Cfg) (s : State) (row : Row) (i : Nat) (e : Eff)
    (hc : s.canceled = true) (he : e ∈ (handle c s row).1.flatten) : ¬ Claims s i e := by
  intro hcl
  obtain ⟨r, hm, _⟩ := only_startStage_claims c s row i e he hcl
  obtain ⟨new, rfl, hns, _⟩ := hcl
  have := startStage_after_cancel_is_inert c s row.id i r hc hns
  simp only [handle, hm, this] at he
  split at he <;> simp at he

/-- **Once a cancel has been accepted, a drained queue means the workflow has reached a final status** — for EVERY
    workflow (any join types, OR-splits, jumps, suspends, any task results) and every schedule made of acknowledged
    deliveries in any order, further cancel requests, signals and recovery sweeps, of any length.  (The invariant: the
    delivery that sets the flag pushes CompleteWorkflow, and a CompleteWorkflow handled while the workflow is canceled and
    not final either finalises it or re-queues itself; `Lemmas/EngineCancel.lean`.)  Which final status it is — CANCELED
    unless the workflow had in effect finished — is decided by `finalStatus` and monitored (`mon_c17`). -/
theorem canceled_drained_is_final (c : Cfg) (ops : List Op) (ha : Acked ops)
    (hc : (run c ops).canceled = true) (hq : (run c ops).queue = []) : (run c ops).wfStatus.isComplete = true :=
  Stab.Engine.canceled_drained_is_final c ops ha hc hq

/-- **... also when workers die and deliveries are never acknowledged.**  The same conclusion for every schedule made of
    acknowledged deliveries, deliveries that are not acknowledged (and come back any number of times), a worker killed
    after ANY number of durable commits of ANY delivery (`Op.crash id k` - in particular between CancelWorkflow's flag
    commit and its fan-out commit, the F40 window), cancel requests, signals and recovery sweeps; the only operation
    left out is a second worker's delivery nested inside a task execution (`NoNested`).  The invariant (`CancInv2`,
    `Lemmas/EngineCrash.lean`): canceled ⇒ the workflow is final, or an UNPROCESSED CompleteWorkflow or CancelWorkflow
    row is queued - a killed CancelWorkflow whose flag commit is durable is itself such a row. -/
theorem canceled_drained_is_final_crash (c : Cfg) (ops : List Op) (hn : NoNested ops)
    (hc : (run c ops).canceled = true) (hq : (run c ops).queue = []) : (run c ops).wfStatus.isComplete = true :=
  Stab.Engine.canceled_drained_is_final_crash c ops hn hc hq

/-- **... for every operation list of the engine model, without exception**: also when a second worker delivers messages
    while a task executes (`Op.nested`: the RunTask's result commit is computed from the state AFTER those deliveries).
    No hypothesis on the workflow, none on the schedule. -/
theorem canceled_drained_is_final_always (c : Cfg) (ops : List Op)
    (hc : (run c ops).canceled = true) (hq : (run c ops).queue = []) : (run c ops).wfStatus.isComplete = true :=
  Stab.Engine.canceled_drained_is_final_always c ops hc hq

-- non-vacuity: a canceled state exists and is reached by an actual run of a one-stage workflow
def demoStage : StageCfg :=
  { reqs := [], join := JoinType.and, threshold := 0, cont := false, failp := true, enabled := none,
    maxj := none, tasks := [[Outcome.succ]] }
def demoCfg : Cfg := { wfMaxj := none, stages := [demoStage] }

example : (run demoCfg [Op.deliver 1, Op.cancel, Op.deliver 3]).canceled = true := by decide

-- the hypotheses of `canceled_drained_is_final` are met by an actual run: cancel after the stage started, then drain
example : Acked [Op.deliver 1, Op.cancel, Op.deliver 3, Op.deliver 2, Op.deliver 4, Op.deliver 5, Op.deliver 6, Op.deliver 7] ∧
    (run demoCfg [Op.deliver 1, Op.cancel, Op.deliver 3, Op.deliver 2, Op.deliver 4, Op.deliver 5, Op.deliver 6, Op.deliver 7]).canceled = true := by
  refine ⟨?_, by decide⟩
  intro op hop
  simp only [List.mem_cons, List.mem_nil_iff, or_false] at hop
  rcases hop with rfl | rfl | rfl | rfl | rfl | rfl | rfl | rfl
  all_goals first | exact Or.inl ⟨_, rfl⟩ | exact Or.inr (Or.inl rfl)

-- the hypotheses of `canceled_drained_is_final_crash` are met by a run in which the worker handling the cancel dies between
-- the flag commit and the fan-out commit, a recovery sweep runs, a StartStage is delivered without ack, and the queue drains
def crashOps : List Op :=
  [Op.deliver 1, Op.cancel, Op.crash 3 1, Op.sweep, Op.deliverNoAck 2, Op.deliver 3, Op.deliver 2, Op.deliver 4, Op.deliver 5,
   Op.deliver 6, Op.deliver 7, Op.deliver 8, Op.deliver 9, Op.deliver 10]

example : NoNested crashOps ∧ (run demoCfg crashOps).canceled = true ∧ (run demoCfg crashOps).queue = [] ∧
    (run demoCfg (crashOps.take 4)).canceled = true ∧ (run demoCfg (crashOps.take 4)).wfStatus = .running := by
  refine ⟨?_, by decide, by decide, by decide, by decide⟩
  intro op hop id inner
  simp only [crashOps, List.mem_cons, List.mem_nil_iff, or_false] at hop
  rcases hop with rfl | rfl | rfl | rfl | rfl | rfl | rfl | rfl | rfl | rfl | rfl | rfl | rfl | rfl <;> simp

-- ... and of `canceled_drained_is_final_always` by a run in which the cancel is accepted by a second worker WHILE the task
-- executes (the task's result commit lands after the fan-out), then the queue drains
def nestedOps : List Op :=
  [Op.deliver 1, Op.deliver 2, Op.deliver 3, Op.cancel, Op.nested 4 [5], Op.deliver 6, Op.deliver 7, Op.deliver 8, Op.deliver 9,
   Op.deliver 10, Op.deliver 11]

example : (run demoCfg nestedOps).canceled = true ∧ (run demoCfg nestedOps).queue = [] ∧
    (run demoCfg nestedOps).ledger.length = 1 ∧ (run demoCfg (nestedOps.take 5)).wfStatus = .running := by decide

end Stab.Props.C17
