/- Property theorems for C17 — to be filled in. -/
namespace Stab.Props.C17
end Stab.Props.C17
