/-
  C19 — what is stored or queued is read back unchanged.

  Part 1 (tables): `Stab.Gen.Schema` is regenerated from the source on every run (dataclass fields, INSERT /
  UPDATE statements, row readers, message registry, the two serialiser loops, `deserialize_message`); the
  theorems below are re-proved against it, so dropping a column, a row key, a popped key or changing one of
  the serialisers breaks a proof obligation.
  Part 2 (codec): the round trip `deserialize ∘ serialize` for an arbitrary dataclass spec satisfying the
  naming discipline, instantiated at every registered message type.
-/
import Stab.Lemmas.Codec
import Stab.Gen.Schema

namespace Stab.Props.C19
open Stab Stab.Codec
open Stab.Gen

/-! ## every field is persisted -/

/-- `StageExecution` fields without a column of their own, and why that is not a loss:
  * `tasks` — own table `task_executions` (insert_stage / store_stage call upsert_task for each);
  * `output_reducers` — mirrored into `context['_output_reducers']` by `__post_init__` and rehydrated from
    it on load (`reducersViaContext`), the context IS a column;
  * `cleanup_on_failure`, `finalizer_names` — declared on the dataclass but read by NO code in
    src/stabilize (`exempt_fields_are_unread`): a value set by the caller is lost on reload, which no
    engine behaviour can observe (reported as finding F23, low severity). -/
def stageExempt : List String := ["tasks", "output_reducers", "cleanup_on_failure", "finalizer_names"]

/-- `Workflow` fields without a column: `stages` (own table); `config_version` — a fingerprint
    `Orchestrator.start` attaches to the in-memory object for auditing, read by no code (F23). -/
def workflowExempt : List String := ["stages", "config_version"]

/-- each `StageExecution` field is written by `insert_stage` (column, bound parameter, dict key) and read
    back by `row_to_stage` (row key, constructor keyword), except the exemptions above -/
theorem every_stage_field_persisted :
    ∀ f ∈ Schema.stageFields, f ∈ stageExempt ∨
      (f ∈ Schema.stageInsertCols ∧ f ∈ Schema.stageInsertParams ∧ f ∈ Schema.stageRowKeys ∧ f ∈ Schema.stageCtorKwargs) := by
  decide

theorem every_task_field_persisted :
    ∀ f ∈ Schema.taskFields,
      f ∈ Schema.taskInsertCols ∧ f ∈ Schema.taskRowKeys ∧ f ∈ Schema.taskCtorKwargs
      ∧ (f = "version" ∨ f ∈ Schema.taskInsertParams)
      ∧ (f = "id" ∨ f ∈ Schema.taskUpdateSet.map (·.1)) := by
  decide

theorem every_workflow_field_persisted :
    ∀ f ∈ Schema.workflowFields, f ∈ workflowExempt ∨
      (f ∈ Schema.workflowInsertCols ∧ f ∈ Schema.workflowInsertParams ∧ f ∈ Schema.workflowRowKeys
        ∧ f ∈ Schema.workflowCtorKwargs) := by
  decide

/-- every column is bound to the parameter of the same name, in the same position (no column / value
    transposition); the only literal is the task's initial `version = 0` -/
theorem insert_binds_same_named_parameters :
    Schema.stageInsertVals = Schema.stageInsertCols.map (":" ++ ·)
    ∧ Schema.stageInsertParams = Schema.stageInsertCols
    ∧ Schema.workflowInsertVals = Schema.workflowInsertCols.map (":" ++ ·)
    ∧ Schema.workflowInsertParams = Schema.workflowInsertCols
    ∧ Schema.taskInsertVals = Schema.taskInsertCols.map (fun c => if c = "version" then "0" else ":" ++ c)
    ∧ Schema.taskInsertParams = Schema.taskInsertCols.filter (· ≠ "version") := by
  decide

/-- nothing is read that is not written: every row key is an INSERT column -/
theorem row_keys_are_columns :
    (∀ k ∈ Schema.stageRowKeys, k ∈ Schema.stageInsertCols)
    ∧ (∀ k ∈ Schema.taskRowKeys, k ∈ Schema.taskInsertCols)
    ∧ (∀ k ∈ Schema.workflowRowKeys, k ∈ Schema.workflowInsertCols) := by
  decide

/-- the exemptions stay justified: the unpersisted fields are read nowhere, reducers travel in the context -/
theorem exempt_fields_are_unread :
    Schema.unpersistedReads = [("cleanup_on_failure", 0), ("config_version", 0), ("finalizer_names", 0)]
    ∧ Schema.reducersViaContext = true := by
  decide

/-- F23, recorded: an empty `origin` is read back as the dataclass default `"unknown"` (`row['origin'] or
    'unknown'`); `origin` is descriptive metadata, no engine code branches on it. -/
theorem origin_empty_reads_unknown : Schema.originEmptyReadsUnknown = true := by decide

/-- enums are stored by value and sent by name; for the three enums involved value = name -/
theorem enum_values_are_names :
    (∀ e ∈ Schema.syntheticStageOwner ++ Schema.joinType ++ Schema.splitType, e.1 = e.2)
    ∧ Schema.syntheticStageOwner.map (·.1) = Phase.all.map Phase.name
    ∧ Schema.joinType.map (·.1) = [JoinType.and, .or, .multiMerge, .discriminator, .nOfM].map JoinType.name := by
  decide

/-! ## saving a stage never alters fields the caller did not change -/

/-- the columns a stage UPDATE writes -/
def updatedColumns : List String := ["status", "context", "outputs", "start_time", "end_time", "version"]

/-- all four stage UPDATE statements (store / transaction, with / without `expected_phase`) SET exactly
    these six columns, five from the same-named parameter and `version = version + 1`, and are guarded by
    `id`, `version` (and `status` for the phase-aware variant) -/
theorem update_set_list :
    ∀ u ∈ Schema.stageUpdates,
      u.2.1 = [("status", ":status"), ("context", ":context"), ("outputs", ":outputs"),
               ("start_time", ":start_time"), ("end_time", ":end_time"), ("version", "version + 1")]
      ∧ (u.2.2.1 = [("id", ":id"), ("version", ":version")]
         ∨ u.2.2.1 = [("id", ":id"), ("version", ":version"), ("status", ":expected_phase")]) := by
  decide

/-- the store's and the transaction's `store_stage` issue the same statements -/
theorem two_store_stage_agree :
    (Schema.stageUpdates.filter (·.1 = "store")).map (·.2) = (Schema.stageUpdates.filter (·.1 = "txn")).map (·.2)
    ∧ (Schema.stageUpdates.filter (·.1 = "store")).length = 2 := by
  decide

/-- **an UPDATE leaves every column outside its SET list as it was** (any row, any new values) -/
theorem update_touches_only (new old : Row) (c : String) (hc : c ∉ updatedColumns) :
    lookup c (applyUpdate updatedColumns new old) = lookup c old :=
  lookup_applyUpdate_of_not_mem updatedColumns new old c hc

/-- …in particular every other stage column: dependencies, control-flow settings, identity -/
theorem update_preserves_other_stage_columns (new old : Row) :
    ∀ c ∈ Schema.stageInsertCols, c ∉ updatedColumns →
      lookup c (applyUpdate updatedColumns new old) = lookup c old :=
  fun c _ hc => update_touches_only new old c hc

example : "join_threshold" ∈ Schema.stageInsertCols ∧ "join_threshold" ∉ updatedColumns
    ∧ "requisite_stage_ref_ids" ∉ updatedColumns := by decide

/-! ## messages -/

/-- the generated registry satisfies the naming discipline the codec relies on (the conversions of
    `deserialize_message` are keyed by field NAME): unique public field names; a `WorkflowStatus` field is
    called `status`, an optional one `original_status`, a `SyntheticStageOwner` field `phase`; every `datetime`
    field is popped; no plain field carries one of the converted names -/
theorem gen_registry_ok :
    Schema.messageTypes.all (fun t => match specOf t.2 with
      | some sp => registryOk sp
      | none => false) = true := by
  decide

/-- the generated conversion / pop tables and helper shapes are the model's -/
theorem gen_deserializer_eq_model :
    Schema.conversions = [("status", "WorkflowStatus", "isStr"), ("original_status", "WorkflowStatus", "truthy"),
                          ("phase", "SyntheticStageOwner", "isStr")]
    ∧ Schema.pops = popped
    ∧ Schema.typeNameIsClassName = true ∧ Schema.createIsKwargsCall = true := by
  decide

/-- both serialisers have the canonical loop shape -/
theorem gen_serializers_canonical :
    Schema.queueSerializerShape = canonicalShape ∧ Schema.txnSerializerShape = canonicalShape := by
  decide

/-- **`Queue.push` and `AtomicTransaction.push_message` produce the same payload for every message**
    (any attribute dict at all, well-typed or not) -/
theorem txn_push_payload_eq_queue_push_payload (m : Fields) :
    serializeWith Schema.txnSerializerShape m = serializeWith Schema.queueSerializerShape m := by
  rw [gen_serializers_canonical.1, gen_serializers_canonical.2]

/-- **round trip for every registered message type**: for every entry of `MESSAGE_TYPES` and every instance
    whose attribute values have the annotated types, deserialising the serialised payload (either
    serialiser) gives back every field unchanged, the four popped metadata fields re-defaulted -/
theorem deserialize_serialize (t : String × List (String × String)) (ht : t ∈ Schema.messageTypes)
    (sp : List (String × Kind)) (hsp : specOf t.2 = some sp)
    (vals : String → PyVal) (dflt : String → PyVal)
    (hv : ∀ f ∈ sp, conforms f.2 (vals f.1) = true) :
    (serializeWith Schema.queueSerializerShape (inst vals sp)).bind (deserialize sp dflt)
        = some (expected dflt (inst vals sp))
    ∧ (serializeWith Schema.txnSerializerShape (inst vals sp)).bind (deserialize sp dflt)
        = some (expected dflt (inst vals sp)) := by
  have hok : registryOk sp = true := by
    have := List.all_eq_true.mp gen_registry_ok t ht
    simp only [hsp] at this
    exact this
  rw [gen_serializers_canonical.1, gen_serializers_canonical.2]
  exact ⟨roundtrip vals sp dflt hok hv, roundtrip vals sp dflt hok hv⟩

/-- every registered type has a well-formed spec (so the theorem above applies to each of them) -/
theorem every_registered_type_has_spec :
    Schema.messageTypes.all (fun t => (specOf t.2).isSome) = true ∧ Schema.messageTypes.length = 23 := by
  decide

/-- non-vacuity: a `CompleteTask` carrying both enum fields and an arbitrary JSON value survives -/
example :
    let sp : List (String × Kind) := [("message_id", .plain), ("created_at", .datetime), ("task_id", .plain),
      ("status", .status), ("original_status", .optStatus)]
    let m : Fields := [("message_id", .json (.str "7")), ("created_at", .time "2026"), ("task_id", .json (.other true "x")),
      ("status", .status .failedContinue), ("original_status", .status .running)]
    (serializeWith canonicalShape m).bind (deserialize sp defaultMark)
      = some [("message_id", defaultMark "message_id"), ("created_at", defaultMark "created_at"),
              ("task_id", .json (.other true "x")), ("status", .status .failedContinue),
              ("original_status", .status .running)] := by
  decide

/-- a serialiser that wrote enums by VALUE would not round-trip (what the shape check protects against) -/
example :
    (serializeWith ["skip:_", "datetime:isoformat", "Enum:value", "else:id"] [("status", .status .running)]).bind
      (deserialize [("status", .status)] defaultMark) ≠ some [("status", .status .running)] := by
  decide

/-! ## tasks come back in creation order -/

/-- every `SELECT … FROM task_executions` orders by `id` -/
theorem task_selects_order_by_id : ∀ q ∈ Schema.taskSelectOrder, q.2 = "id ASC" := by decide

/-- **tasks are read in creation order**: task ids are ULIDs, assumed strictly increasing in creation order
    (trusted: python-ulid monotonic within a process); whatever physical order the table holds the rows in,
    `ORDER BY id` returns them in the order they were created -/
theorem tasks_read_in_id_order (created rows : List (Nat × String))
    (hmono : created.Pairwise (fun a b => a.1 < b.1)) (hrows : rows.Perm created) :
    readTasks rows = created := by
  unfold readTasks
  have hp : (rows.mergeSort (fun a b => decide (a.1 ≤ b.1))).Perm created :=
    (List.mergeSort_perm rows _).trans hrows
  have hs := List.pairwise_mergeSort (le := fun (a b : Nat × String) => decide (a.1 ≤ b.1))
    (by intro a b c h1 h2; simp only [decide_eq_true_eq] at *; omega)
    (by intro a b; simp only [Bool.or_eq_true, decide_eq_true_eq]; omega) rows
  have hc : created.Pairwise (fun a b => decide (a.1 ≤ b.1) = true) :=
    hmono.imp (fun h => by simp only [decide_eq_true_eq]; omega)
  refine List.Perm.eq_of_pairwise ?_ hs hc hp
  intro a b ha hb h1 h2
  simp only [decide_eq_true_eq] at h1 h2
  exact eq_of_id_eq hmono (hp.subset ha) hb (by omega)

example : readTasks [(3, "c"), (1, "a"), (2, "b")] = [(1, "a"), (2, "b"), (3, "c")] :=
  tasks_read_in_id_order _ _ (by decide) (by decide)

end Stab.Props.C19
