/- Property theorems for C19 — to be filled in. -/
namespace Stab.Props.C19
end Stab.Props.C19
