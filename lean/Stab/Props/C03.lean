/-
  C03 — a stage never runs before its dependencies allow it (pure half).

  Theorems about `Stab.Ready.evaluate`, the executable model of
  `stabilize.dag.readiness.evaluate_readiness` that the driver runs (token `ready`) and that the
  correspondence check compares with the real function on real `StageExecution` objects.
  Every statement is for ALL inputs: any number of upstreams, any statuses, any refs (duplicates
  allowed), any integer threshold, any activation list.  The engine-level half (claims happen only
  in states where `evaluate` says READY, on every schedule) cites these.

  Vocabulary: an upstream is *continuable* when its status ∈ CONTINUABLE_STATUSES
  (SUCCEEDED, FAILED_CONTINUE, SKIPPED, REDIRECT) and *halted* when ∈ HALT_STATUSES
  (TERMINAL, CANCELED, STOPPED).
-/
import Stab.Model.Ready
import Stab.Lemmas.C03
import Stab.Lemmas.EngineClaim

namespace Stab.Props.C03
open Stab Stab.Ready Stab.Lemmas.C03

/-- number of continuable upstreams -/
def nCont (ups : List Up) : Nat := (ups.filter (·.status.isContinuable)).length
/-- number of upstreams that are not halted (continuable or still able to complete) -/
def nLive (ups : List Up) : Nat := (ups.filter (fun u => !u.status.isHalt)).length

/-! ## READY, per join type, as an equivalence -/

/-- bypass (the `_jump_bypass` flag, set only by a jump on its target) makes every input READY -/
theorem ready_of_bypass (i : In) (h : i.bypass = true) : evaluate i = { phase := .ready } := by
  simp [evaluate, h]

/-- a stage without upstreams is READY -/
theorem ready_of_no_upstreams (i : In) (h : i.ups = []) : evaluate i = { phase := .ready } := by
  simp [evaluate, h]

/-- **AND join**: READY ⇔ every upstream is continuable. -/
theorem ready_iff_and (i : In) (hb : i.bypass = false) (hj : i.join = .and) :
    (evaluate i).phase = .ready ↔ ∀ u ∈ i.ups, u.status.isContinuable = true := by
  unfold evaluate
  by_cases he : i.ups.isEmpty = true
  · simp only [hb, he, Bool.false_eq_true, ↓reduceIte, true_iff]
    rw [List.isEmpty_iff] at he; simp [he]
  · simp only [hb, he, hj, Bool.false_eq_true, ↓reduceIte]; exact and_ready_iff _

/-- **OR join**: without `_activated_branches` it is the AND condition; with it, READY ⇔ every
    upstream whose ref is listed is continuable (in particular READY when none is listed). -/
theorem ready_iff_or (i : In) (hb : i.bypass = false) (hj : i.join = .or) :
    (evaluate i).phase = .ready ↔
      match i.activated with
      | none => ∀ u ∈ i.ups, u.status.isContinuable = true
      | some act => ∀ u ∈ i.ups, u.ref ∈ act → u.status.isContinuable = true := by
  unfold evaluate
  by_cases he : i.ups.isEmpty = true
  · simp only [hb, he, Bool.false_eq_true, ↓reduceIte, true_iff]
    rw [List.isEmpty_iff] at he; cases i.activated <;> simp [he]
  · simp only [hb, he, hj, Bool.false_eq_true, ↓reduceIte]
    unfold orJoin
    cases i.activated with
    | none => exact and_ready_iff _
    | some act =>
      simp only
      by_cases hr : (i.ups.filter (fun u => act.contains u.ref)).isEmpty = true
      · simp only [hr, ↓reduceIte, true_iff]
        simp only [List.isEmpty_iff, List.filter_eq_nil_iff, List.contains_eq_mem,
          decide_eq_true_eq] at hr
        intro u hu hm; exact absurd hm (hr u hu)
      · simp only [hr, Bool.false_eq_true, ↓reduceIte]
        rw [and_ready_iff]
        simp [List.mem_filter]

/-- **MULTI_MERGE**: READY ⇔ no upstreams or some upstream is continuable. -/
theorem ready_iff_multi_merge (i : In) (hb : i.bypass = false) (hj : i.join = .multiMerge) :
    (evaluate i).phase = .ready ↔ i.ups = [] ∨ ∃ u ∈ i.ups, u.status.isContinuable = true := by
  unfold evaluate
  by_cases he : i.ups.isEmpty = true
  · simp only [hb, he, Bool.false_eq_true, ↓reduceIte, true_iff]
    rw [List.isEmpty_iff] at he; exact Or.inl he
  · simp only [hb, he, hj, Bool.false_eq_true, ↓reduceIte]
    rw [mm_ready_iff]
    have : i.ups ≠ [] := by simpa using he
    simp [this]

/-- **DISCRIMINATOR**: READY ⇔ no upstreams, or it has not fired and some upstream is continuable. -/
theorem ready_iff_discriminator (i : In) (hb : i.bypass = false) (hj : i.join = .discriminator) :
    (evaluate i).phase = .ready ↔
      i.ups = [] ∨ (i.joinFired = false ∧ ∃ u ∈ i.ups, u.status.isContinuable = true) := by
  unfold evaluate
  by_cases he : i.ups.isEmpty = true
  · simp only [hb, he, Bool.false_eq_true, ↓reduceIte, true_iff]
    rw [List.isEmpty_iff] at he; exact Or.inl he
  · simp only [hb, he, hj, Bool.false_eq_true, ↓reduceIte]
    have hne : i.ups ≠ [] := by simpa using he
    unfold discriminator
    cases hf : i.joinFired
    · simp only [Bool.false_eq_true, ↓reduceIte]; rw [mm_ready_iff]; simp [hne]
    · simp [hne]

/-- **N_OF_M** with a positive threshold: READY ⇔ no upstreams, or it has not fired and at least
    `threshold` upstreams are continuable. -/
theorem ready_iff_n_of_m (i : In) (hb : i.bypass = false) (hj : i.join = .nOfM)
    (ht : 0 < i.threshold) :
    (evaluate i).phase = .ready ↔
      i.ups = [] ∨ (i.joinFired = false ∧ i.threshold ≤ (nCont i.ups : Int)) := by
  unfold evaluate
  by_cases he : i.ups.isEmpty = true
  · simp only [hb, he, Bool.false_eq_true, ↓reduceIte, true_iff]
    rw [List.isEmpty_iff] at he; exact Or.inl he
  · simp only [hb, he, hj, Bool.false_eq_true, ↓reduceIte]
    have hne : i.ups ≠ [] := by simpa using he
    have ht' : ¬ i.threshold ≤ 0 := by omega
    unfold nOfM nCont
    simp only [ht', ↓reduceIte]
    cases hf : i.joinFired
    · simp only [Bool.false_eq_true, ↓reduceIte, ge_iff_le]
      split
      · simp_all
      · split
        · simp_all
        · split <;> simp_all
    · simp [hne]

/-- `join_threshold <= 0` on an N_OF_M stage is evaluated exactly as an AND join -/
theorem threshold_nonpos_is_and (i : In) (hj : i.join = .nOfM) (ht : i.threshold ≤ 0) :
    evaluate i = evaluate { i with join := .and } := by
  simp [evaluate, hj, nOfM, ht]

/-- an OR join without `_activated_branches` is evaluated exactly as an AND join -/
theorem or_without_info_is_and (i : In) (hj : i.join = .or) (ha : i.activated = none) :
    evaluate i = evaluate { i with join := .and } := by
  simp [evaluate, hj, orJoin, ha]

/-! ## the property as stated: READY implies the join condition -/

/-- the join condition of the property statement, per join type -/
def JoinMet (i : In) : Prop :=
  i.bypass = true ∨ i.ups = [] ∨
  ((i.join = .and ∨ (i.join = .nOfM ∧ i.threshold ≤ 0) ∨ (i.join = .or ∧ i.activated = none))
      ∧ ∀ u ∈ i.ups, u.status.isContinuable = true) ∨
  (i.join = .nOfM ∧ 0 < i.threshold ∧ i.joinFired = false ∧ i.threshold ≤ (nCont i.ups : Int)) ∨
  (i.join = .discriminator ∧ i.joinFired = false ∧ ∃ u ∈ i.ups, u.status.isContinuable = true) ∨
  (i.join = .or ∧ ∃ act, i.activated = some act ∧
      ∀ u ∈ i.ups, u.ref ∈ act → u.status.isContinuable = true) ∨
  (i.join = .multiMerge ∧ ∃ u ∈ i.ups, u.status.isContinuable = true)

/-- **`ready_sound`** (and complete): `evaluate` answers READY exactly when the join condition
    over the upstream statuses is met. -/
theorem ready_iff_join_met (i : In) : (evaluate i).phase = .ready ↔ JoinMet i := by
  unfold JoinMet
  cases hb : i.bypass
  case true => simp [ready_of_bypass i hb]
  case false =>
    by_cases he : i.ups = []
    · simp [ready_of_no_upstreams i he, he]
    · cases hj : i.join
      case and => rw [ready_iff_and i hb hj]; simp [he]
      case or =>
        rw [ready_iff_or i hb hj]
        cases ha : i.activated <;> simp [he]
      case multiMerge => rw [ready_iff_multi_merge i hb hj]; simp [he]
      case discriminator => rw [ready_iff_discriminator i hb hj]; simp [he]
      case nOfM =>
        by_cases ht : 0 < i.threshold
        · rw [ready_iff_n_of_m i hb hj ht]
          have : ¬ i.threshold ≤ 0 := by omega
          simp [he, ht, this]
        · have ht' : i.threshold ≤ 0 := by omega
          have hand := ready_iff_and { i with join := .and } hb rfl
          rw [threshold_nonpos_is_and i hj ht', hand]
          simp [he, ht, ht']

theorem ready_sound (i : In) (h : (evaluate i).phase = .ready) : JoinMet i :=
  (ready_iff_join_met i).mp h

/-- An AND-join stage with a halted upstream is never READY unless the jump bypass is set;
    it is SKIP, and the halted upstreams are exactly the reported `failed` ids. -/
theorem halted_upstream_blocks_and (i : In) (hb : i.bypass = false) (hj : i.join = .and)
    (u : Up) (hu : u ∈ i.ups) (hh : u.status.isHalt = true) :
    (evaluate i).phase = .skip ∧ u.ref ∈ (evaluate i).failed := by
  have hne : i.ups.isEmpty = false := by cases hl : i.ups <;> simp_all
  simp only [evaluate, hb, hne, hj, Bool.false_eq_true, ↓reduceIte]
  refine ⟨(and_skip_iff _).mpr ⟨u, hu, hh⟩, ?_⟩
  rw [and_failed]
  exact List.mem_map.mpr ⟨u, List.mem_filter.mpr ⟨hu, hh⟩, rfl⟩

/-- A fired DISCRIMINATOR / positive-threshold N_OF_M join with upstreams is never READY again
    (NOT_READY until a jump re-arms it by clearing `_join_fired`). -/
theorem fired_blocks (i : In) (hb : i.bypass = false) (hne : i.ups ≠ [])
    (hj : i.join = .discriminator ∨ (i.join = .nOfM ∧ 0 < i.threshold)) (hf : i.joinFired = true) :
    evaluate i = { phase := .notReady } := by
  have he : i.ups.isEmpty = false := by simpa using hne
  rcases hj with hj | ⟨hj, ht⟩
  · simp [evaluate, hb, he, hj, discriminator, hf]
  · have : ¬ i.threshold ≤ 0 := by omega
    simp [evaluate, hb, he, hj, nOfM, hf, this]

/-! ## SKIP, per join type -/

theorem skip_iff_and (i : In) (hb : i.bypass = false) (hj : i.join = .and) :
    (evaluate i).phase = .skip ↔ ∃ u ∈ i.ups, u.status.isHalt = true := by
  unfold evaluate
  by_cases he : i.ups.isEmpty = true
  · simp only [hb, he, Bool.false_eq_true, ↓reduceIte]
    rw [List.isEmpty_iff] at he; simp [he]
  · simp only [hb, he, hj, Bool.false_eq_true, ↓reduceIte]; exact and_skip_iff _

/-- OR join: SKIP ⇔ some upstream that counts (all of them without activation info, the listed
    ones with it) is halted -/
theorem skip_iff_or (i : In) (hb : i.bypass = false) (hj : i.join = .or) :
    (evaluate i).phase = .skip ↔
      match i.activated with
      | none => ∃ u ∈ i.ups, u.status.isHalt = true
      | some act => ∃ u ∈ i.ups, u.ref ∈ act ∧ u.status.isHalt = true := by
  unfold evaluate
  by_cases he : i.ups.isEmpty = true
  · simp only [hb, he, Bool.false_eq_true, ↓reduceIte]
    rw [List.isEmpty_iff] at he; cases i.activated <;> simp [he]
  · simp only [hb, he, hj, Bool.false_eq_true, ↓reduceIte]
    unfold orJoin
    cases i.activated with
    | none => exact and_skip_iff _
    | some act =>
      simp only
      by_cases hr : (i.ups.filter (fun u => act.contains u.ref)).isEmpty = true
      · simp only [hr, ↓reduceIte]
        simp only [List.isEmpty_iff, List.filter_eq_nil_iff, List.contains_eq_mem,
          decide_eq_true_eq] at hr
        constructor
        · intro h; cases h
        · rintro ⟨u, hu, hm, _⟩; exact absurd hm (hr u hu)
      · simp only [hr, Bool.false_eq_true, ↓reduceIte]
        rw [and_skip_iff]
        simp [List.mem_filter, and_assoc]

/-- MULTI_MERGE and an unfired DISCRIMINATOR: SKIP ⇔ there are upstreams and all are halted -/
theorem skip_iff_multi_merge (i : In) (hb : i.bypass = false) (hj : i.join = .multiMerge) :
    (evaluate i).phase = .skip ↔ i.ups ≠ [] ∧ ∀ u ∈ i.ups, u.status.isHalt = true := by
  unfold evaluate
  by_cases he : i.ups.isEmpty = true
  · simp only [hb, he, Bool.false_eq_true, ↓reduceIte]
    rw [List.isEmpty_iff] at he; simp [he]
  · simp only [hb, he, hj, Bool.false_eq_true, ↓reduceIte]
    have hne : i.ups ≠ [] := by simpa using he
    rw [mm_skip_iff]
    constructor
    · rintro ⟨_, h⟩; exact ⟨hne, h⟩
    · rintro ⟨_, h⟩; exact ⟨fun u hu => halt_not_cont _ (h u hu), h⟩

theorem skip_iff_discriminator (i : In) (hb : i.bypass = false) (hj : i.join = .discriminator) :
    (evaluate i).phase = .skip ↔
      i.ups ≠ [] ∧ i.joinFired = false ∧ ∀ u ∈ i.ups, u.status.isHalt = true := by
  unfold evaluate
  by_cases he : i.ups.isEmpty = true
  · simp only [hb, he, Bool.false_eq_true, ↓reduceIte]
    rw [List.isEmpty_iff] at he; simp [he]
  · simp only [hb, he, hj, Bool.false_eq_true, ↓reduceIte]
    have hne : i.ups ≠ [] := by simpa using he
    unfold discriminator
    cases hf : i.joinFired
    · simp only [Bool.false_eq_true, ↓reduceIte]
      rw [mm_skip_iff]
      constructor
      · rintro ⟨_, h⟩; exact ⟨hne, by simp, h⟩
      · rintro ⟨_, _, h⟩; exact ⟨fun u hu => halt_not_cont _ (h u hu), h⟩
    · simp

/-- **N_OF_M, positive threshold: SKIP ⇔ the threshold has become unreachable** — it has not
    fired and fewer than `threshold` upstreams are still not halted. -/
theorem skip_iff_n_of_m (i : In) (hb : i.bypass = false) (hj : i.join = .nOfM)
    (ht : 0 < i.threshold) :
    (evaluate i).phase = .skip ↔
      i.ups ≠ [] ∧ i.joinFired = false ∧ (nLive i.ups : Int) < i.threshold := by
  unfold evaluate
  by_cases he : i.ups.isEmpty = true
  · simp only [hb, he, Bool.false_eq_true, ↓reduceIte]
    rw [List.isEmpty_iff] at he; simp [he]
  · simp only [hb, he, hj, Bool.false_eq_true, ↓reduceIte]
    have hne : i.ups ≠ [] := by simpa using he
    have ht' : ¬ i.threshold ≤ 0 := by omega
    have hsplit := count_split i.ups
    unfold nOfM nLive
    simp only [ht', ↓reduceIte]
    cases hf : i.joinFired
    · simp only [Bool.false_eq_true, ↓reduceIte, ge_iff_le]
      split
      · rename_i h1
        simp only [reduceCtorEq, hne, ne_eq, not_false_eq_true, true_and, false_iff]
        omega
      · split
        · rename_i h1 h2
          simp only [hne, ne_eq, not_false_eq_true, true_and, true_iff]
          rw [← hsplit]; exact h2
        · rename_i h1 h2
          have : ¬ ((nLive i.ups : Int) < i.threshold) := by
            unfold nLive; rw [← hsplit]; exact h2
          unfold nLive at this
          split <;> simp [this]
    · simp

/-! ## totality and the reported id lists -/

/-- the result is one of three phases (the model, like the code, never answers UNDEFINED),
    and NOT_READY is exactly "neither READY nor SKIP" -/
theorem phase_total (i : In) :
    ((evaluate i).phase = .ready ∨ (evaluate i).phase = .notReady ∨ (evaluate i).phase = .skip)
    ∧ ((evaluate i).phase = .notReady ↔
        ¬ (evaluate i).phase = .ready ∧ ¬ (evaluate i).phase = .skip) := by
  cases (evaluate i).phase <;> simp

/-- AND join: NOT_READY ⇔ nothing halted and something not yet continuable -/
theorem not_ready_iff_and (i : In) (hb : i.bypass = false) (hj : i.join = .and) :
    (evaluate i).phase = .notReady ↔
      (∀ u ∈ i.ups, u.status.isHalt = false) ∧ ∃ u ∈ i.ups, u.status.isContinuable = false := by
  rw [(phase_total i).2, ready_iff_and i hb hj, skip_iff_and i hb hj]
  constructor
  · rintro ⟨h1, h2⟩
    refine ⟨fun u hu => ?_, ?_⟩
    · cases hh : u.status.isHalt with
      | false => rfl
      | true => exact absurd ⟨u, hu, hh⟩ h2
    · exact Classical.byContradiction fun hne => h1 fun u hu => by
        cases hc : u.status.isContinuable with
        | true => rfl
        | false => exact absurd ⟨u, hu, hc⟩ hne
  · rintro ⟨hh, u, hu, hc⟩
    refine ⟨fun hall => ?_, fun ⟨v, hv, hhv⟩ => ?_⟩
    · rw [hall u hu] at hc; cases hc
    · rw [hh v hv] at hhv; cases hhv

/-- private: the three sub-evaluators' id lists -/
theorem mm_ids (ups : List Up) :
    (∀ r ∈ (multiMerge ups).failed, ∃ u ∈ ups, u.ref = r ∧ u.status.isHalt = true) ∧
    (∀ r ∈ (multiMerge ups).active, ∃ u ∈ ups, u.ref = r ∧ u.status.isContinuable = false) := by
  unfold multiMerge
  by_cases h : ups.any (·.status.isContinuable) = true
  · simp [h]
  · simp only [h, Bool.false_eq_true, ↓reduceIte]
    have hc : ∀ u ∈ ups, u.status.isContinuable = false := by simpa using h
    by_cases ha : ups.all (·.status.isHalt) = true
    · simp only [ha, ↓reduceIte, List.mem_map, List.not_mem_nil, false_imp_iff, implies_true, and_true]
      have hh : ∀ u ∈ ups, u.status.isHalt = true := by simpa using ha
      rintro r ⟨u, hu, rfl⟩; exact ⟨u, hu, rfl, hh u hu⟩
    · simp only [ha, Bool.false_eq_true, ↓reduceIte, List.mem_map, List.not_mem_nil, false_imp_iff,
        implies_true, true_and]
      rintro r ⟨u, hu, rfl⟩; exact ⟨u, hu, rfl, hc u hu⟩

/-- **`active_ids_subset`**: every reported `failed_upstream_id` is the ref of a halted upstream
    and is only reported with SKIP; every reported `active_upstream_id` is the ref of an upstream
    that is not continuable and is only reported with NOT_READY.  (For MULTI_MERGE /
    DISCRIMINATOR the "active" list is simply all upstreams, so it may name halted ones — that is
    what the code does; for AND / OR / N_OF_M active ids are additionally not halted:
    `active_ids_not_halted`.) -/
theorem active_ids_subset (i : In) :
    (∀ r ∈ (evaluate i).failed, (evaluate i).phase = .skip ∧
        ∃ u ∈ i.ups, u.ref = r ∧ u.status.isHalt = true) ∧
    (∀ r ∈ (evaluate i).active, (evaluate i).phase = .notReady ∧
        ∃ u ∈ i.ups, u.ref = r ∧ u.status.isContinuable = false) := by
  -- facts about the four sub-evaluators
  have hand : ∀ ups : List Up,
      (∀ r ∈ (andJoin ups).failed, (andJoin ups).phase = .skip ∧
          ∃ u ∈ ups, u.ref = r ∧ u.status.isHalt = true) ∧
      (∀ r ∈ (andJoin ups).active, (andJoin ups).phase = .notReady ∧
          ∃ u ∈ ups, u.ref = r ∧ u.status.isContinuable = false) := by
    intro ups
    constructor
    · intro r hr
      rw [and_failed] at hr
      obtain ⟨u, hu, rfl⟩ := List.mem_map.mp hr
      obtain ⟨hu, hh⟩ := List.mem_filter.mp hu
      exact ⟨(and_skip_iff ups).mpr ⟨u, hu, hh⟩, u, hu, rfl, hh⟩
    · intro r hr
      obtain ⟨u, hu, hr', hc, hh⟩ := and_active_mem ups r hr
      exact ⟨and_active_phase ups r hr, u, hu, hr', hc⟩
  have hmm : ∀ ups : List Up,
      (∀ r ∈ (multiMerge ups).failed, (multiMerge ups).phase = .skip ∧
          ∃ u ∈ ups, u.ref = r ∧ u.status.isHalt = true) ∧
      (∀ r ∈ (multiMerge ups).active, (multiMerge ups).phase = .notReady ∧
          ∃ u ∈ ups, u.ref = r ∧ u.status.isContinuable = false) := by
    intro ups
    refine ⟨fun r hr => ⟨?_, (mm_ids ups).1 r hr⟩, fun r hr => ⟨?_, (mm_ids ups).2 r hr⟩⟩
    · unfold multiMerge at hr ⊢
      split at hr
      · simp at hr
      · split at hr
        · rename_i h1 h2; simp [h1, h2]
        · simp at hr
    · unfold multiMerge at hr ⊢
      split at hr
      · simp at hr
      · split at hr
        · simp at hr
        · rename_i h1 h2; simp [h1, h2]
  unfold evaluate
  split
  · simp
  · split
    · simp
    · cases i.join with
      | and => exact hand _
      | multiMerge => exact hmm _
      | discriminator =>
        simp only; unfold discriminator
        split
        · simp
        · exact hmm _
      | or =>
        simp only; unfold orJoin
        cases i.activated with
        | none => exact hand _
        | some act =>
          simp only
          split
          · simp
          · have := hand (i.ups.filter (fun u => act.contains u.ref))
            refine ⟨fun r hr => ?_, fun r hr => ?_⟩
            · obtain ⟨h1, u, hu, h2⟩ := this.1 r hr
              exact ⟨h1, u, (List.mem_filter.mp hu).1, h2⟩
            · obtain ⟨h1, u, hu, h2⟩ := this.2 r hr
              exact ⟨h1, u, (List.mem_filter.mp hu).1, h2⟩
      | nOfM =>
        simp only; rw [nOfM_eq]
        split
        · exact hand _
        · split
          · simp
          · split
            · simp
            · split
              · simp only [List.mem_map, List.mem_filter, Bool.and_eq_true, Bool.not_eq_eq_eq_not,
                  Bool.not_true, List.not_mem_nil, false_imp_iff, implies_true, and_true, true_and]
                rintro r ⟨u, ⟨hu, _, hh⟩, rfl⟩; exact ⟨u, hu, rfl, hh⟩
              · split
                · simp only [List.not_mem_nil, false_imp_iff, implies_true, List.mem_map,
                    List.mem_filter, Bool.and_eq_true, Bool.not_eq_eq_eq_not, Bool.not_true, true_and]
                  rintro r ⟨u, ⟨hu, hc, _⟩, rfl⟩; exact ⟨u, hu, rfl, hc⟩
                · simp

/-! ## monotonicity / congruence facts for the engine proof -/

/-- **The phase depends only on (ref, continuable?, halted?) of each upstream.**  Rewriting the
    upstream rows by any `f` that keeps refs and both classifications leaves the phase unchanged,
    for every join type — e.g. a continuable upstream changing to another continuable status
    (REDIRECT → SUCCEEDED), or RUNNING → SUSPENDED. -/
theorem phase_congr (i : In) (f : Up → Up)
    (hr : ∀ u, (f u).ref = u.ref)
    (hc : ∀ u, (f u).status.isContinuable = u.status.isContinuable)
    (hh : ∀ u, (f u).status.isHalt = u.status.isHalt) :
    (evaluate { i with ups := i.ups.map f }).phase = (evaluate i).phase := by
  have hfilt : ∀ (p : Up → Bool), (∀ u, p (f u) = p u) → ∀ l : List Up,
      (l.map f).filter p = (l.filter p).map f := by
    intro p hp l
    induction l with
    | nil => rfl
    | cons a t ih => simp [List.filter_cons, hp a, ih]; split <;> simp
  have handp : ∀ l : List Up, (andJoin (l.map f)).phase = (andJoin l).phase := by
    intro l
    cases hph : (andJoin l).phase
    · rw [and_ready_iff] at hph ⊢; intro u hu
      obtain ⟨v, hv, rfl⟩ := List.mem_map.mp hu; rw [hc]; exact hph v hv
    · have h1 : ¬ (andJoin l).phase = .ready := by simp [hph]
      have h2 : ¬ (andJoin l).phase = .skip := by simp [hph]
      rw [and_ready_iff] at h1; rw [and_skip_iff] at h2
      have h1' : ¬ (andJoin (l.map f)).phase = .ready := by
        rw [and_ready_iff]; intro hall; apply h1; intro u hu
        rw [← hc]; exact hall _ (List.mem_map_of_mem hu)
      have h2' : ¬ (andJoin (l.map f)).phase = .skip := by
        rw [and_skip_iff]; rintro ⟨u, hu, hhu⟩
        obtain ⟨v, hv, rfl⟩ := List.mem_map.mp hu; rw [hh] at hhu; exact h2 ⟨v, hv, hhu⟩
      cases hq : (andJoin (l.map f)).phase <;> simp_all
    · rw [and_skip_iff] at hph ⊢
      obtain ⟨u, hu, hhu⟩ := hph
      exact ⟨f u, List.mem_map_of_mem hu, by rw [hh]; exact hhu⟩
  have hmmp : ∀ l : List Up, (multiMerge (l.map f)).phase = (multiMerge l).phase := by
    intro l
    unfold multiMerge
    have e1 : (l.map f).any (·.status.isContinuable) = l.any (·.status.isContinuable) := by
      simp [List.any_map, Function.comp_def, hc]
    have e2 : (l.map f).all (·.status.isHalt) = l.all (·.status.isHalt) := by
      simp [List.all_map, Function.comp_def, hh]
    rw [e1, e2]
    split
    · rfl
    · split <;> rfl
  unfold evaluate
  simp only [List.isEmpty_map]
  split
  · rfl
  · split
    · rfl
    · cases i.join with
      | and => exact handp _
      | multiMerge => exact hmmp _
      | discriminator =>
        simp only; unfold discriminator; split
        · rfl
        · exact hmmp _
      | or =>
        simp only; unfold orJoin
        cases i.activated with
        | none => exact handp _
        | some act =>
          simp only
          rw [hfilt (fun u => act.contains u.ref) (fun u => by simp [hr]) i.ups]
          simp only [List.isEmpty_map]
          split
          · rfl
          · exact handp _
      | nOfM =>
        simp only; rw [nOfM_eq, nOfM_eq]
        split
        · exact handp _
        · split
          · rfl
          · rw [hfilt (·.status.isContinuable) (fun u => hc u) i.ups,
              hfilt (fun u => !u.status.isContinuable && !u.status.isHalt)
                (fun u => by simp [hc, hh]) i.ups]
            simp only [List.length_map, List.isEmpty_map]
            split
            · rfl
            · split
              · rfl
              · split <;> rfl

/-- AND-join READY is stable under replacing the status of one upstream (by ref) with any
    continuable status: what was READY stays READY. -/
theorem and_ready_stable (i : In) (hb : i.bypass = false) (hj : i.join = .and) (r : Nat)
    (s' : Status) (hs : s'.isContinuable = true) (h : (evaluate i).phase = .ready) :
    (evaluate { i with ups := i.ups.map (fun u => if u.ref = r then { u with status := s' } else u) }).phase
      = .ready := by
  rw [ready_iff_and i hb hj] at h
  refine (ready_iff_and
    { i with ups := i.ups.map (fun u => if u.ref = r then { u with status := s' } else u) } hb hj).mpr ?_
  intro u hu
  obtain ⟨v, hv, rfl⟩ := List.mem_map.mp hu
  by_cases hvr : v.ref = r
  · simp [hvr, hs]
  · simp [hvr, h v hv]

/-- READY is monotone in upstream progress for every join type that has not fired: turning a
    non-continuable upstream continuable never destroys READY.  Stated for the list-map form:
    if `f` keeps refs and only ever turns statuses continuable (`cont u → cont (f u)`), READY is
    preserved. -/
theorem ready_mono (i : In) (f : Up → Up)
    (hr : ∀ u, (f u).ref = u.ref)
    (hc : ∀ u, u.status.isContinuable = true → (f u).status.isContinuable = true)
    (h : (evaluate i).phase = .ready) :
    (evaluate { i with ups := i.ups.map f }).phase = .ready := by
  rw [ready_iff_join_met] at h ⊢
  have hcount : ∀ l : List Up, nCont l ≤ nCont (l.map f) := by
    intro l
    unfold nCont
    induction l with
    | nil => simp
    | cons a t ih =>
      simp only [List.map_cons, List.filter_cons]
      cases ha : a.status.isContinuable
      · simp only [Bool.false_eq_true, ↓reduceIte]; split <;> (try simp only [List.length_cons]) <;> omega
      · simp only [hc a ha, ↓reduceIte, List.length_cons]; omega
  have hall : (∀ u ∈ i.ups, u.status.isContinuable = true) →
      ∀ u ∈ i.ups.map f, u.status.isContinuable = true := by
    intro hall u hu
    obtain ⟨v, hv, rfl⟩ := List.mem_map.mp hu; exact hc v (hall v hv)
  have hex : (∃ u ∈ i.ups, u.status.isContinuable = true) →
      ∃ u ∈ i.ups.map f, u.status.isContinuable = true := by
    rintro ⟨u, hu, hcu⟩; exact ⟨f u, List.mem_map_of_mem hu, hc u hcu⟩
  unfold JoinMet at h ⊢
  rcases h with h | h | ⟨hj, h⟩ | ⟨hj, ht, hf, h⟩ | ⟨hj, hf, h⟩ | ⟨hj, act, ha, h⟩ | ⟨hj, h⟩
  · exact Or.inl h
  · right; left; simp only [h, List.map_nil]
  · right; right; left; exact ⟨hj, hall h⟩
  · right; right; right; left
    refine ⟨hj, ht, hf, ?_⟩
    have := hcount i.ups
    simp only; omega
  · right; right; right; right; left; exact ⟨hj, hf, hex h⟩
  · right; right; right; right; right; left
    refine ⟨hj, act, ha, ?_⟩
    intro u hu hm
    obtain ⟨v, hv, rfl⟩ := List.mem_map.mp hu
    rw [hr] at hm; exact hc v (h v hv hm)
  · right; right; right; right; right; right; exact ⟨hj, hex h⟩

/-! ## non-vacuity: concrete inputs exercising each hypothesis / each branch -/

private def u (r : Nat) (s : Status) : Up := { ref := r, status := s }
private def mk (j : JoinType) (th : Int) (fired : Bool) (act : Option (List Nat)) (ups : List Up) : In :=
  { join := j, threshold := th, joinFired := fired, activated := act, bypass := false, ups := ups }

-- AND: ready / skip (STOPPED halts) / not ready
example : (evaluate (mk .and 0 false none [u 0 .succeeded, u 1 .redirect])).phase = .ready := by decide
example : evaluate (mk .and 0 false none [u 0 .succeeded, u 1 .stopped]) = { phase := .skip, failed := [1] } := by decide
example : evaluate (mk .and 0 false none [u 0 .succeeded, u 1 .running]) = { phase := .notReady, active := [1] } := by decide
-- bypass overrides a halted upstream
example : (evaluate { mk .and 0 false none [u 0 .terminal] with bypass := true }).phase = .ready := by decide
-- N_OF_M: exactly at the threshold is READY; one short is not; unreachable is SKIP; fired blocks
example : (evaluate (mk .nOfM 2 false none [u 0 .succeeded, u 1 .skipped, u 2 .running])).phase = .ready := by decide
example : (evaluate (mk .nOfM 2 false none [u 0 .succeeded, u 1 .running, u 2 .terminal])).phase = .notReady := by decide
example : evaluate (mk .nOfM 2 false none [u 0 .succeeded, u 1 .canceled, u 2 .terminal]) = { phase := .skip, failed := [1, 2] } := by decide
example : (evaluate (mk .nOfM 2 true none [u 0 .succeeded, u 1 .succeeded])).phase = .notReady := by decide
example : (evaluate (mk .nOfM 0 true none [u 0 .succeeded, u 1 .succeeded])).phase = .ready := by decide
-- DISCRIMINATOR
example : (evaluate (mk .discriminator 0 false none [u 0 .running, u 1 .succeeded])).phase = .ready := by decide
example : (evaluate (mk .discriminator 0 true none [u 0 .running, u 1 .succeeded])).phase = .notReady := by decide
-- OR: activation info restricts the wait set; an unlisted halted upstream does not matter
example : (evaluate (mk .or 0 false (some [0]) [u 0 .succeeded, u 1 .terminal])).phase = .ready := by decide
example : (evaluate (mk .or 0 false (some []) [u 0 .running, u 1 .terminal])).phase = .ready := by decide
example : (evaluate (mk .or 0 false none [u 0 .succeeded, u 1 .terminal])).phase = .skip := by decide
example : (evaluate (mk .or 0 false (some [0, 1]) [u 0 .succeeded, u 1 .running])).phase = .notReady := by decide
-- MULTI_MERGE: "active" ids may name a halted upstream (what the code does)
example : evaluate (mk .multiMerge 0 false none [u 0 .terminal, u 1 .running]) = { phase := .notReady, active := [0, 1] } := by decide
-- hypotheses of `halted_upstream_blocks_and`, `fired_blocks`, `and_ready_stable` are satisfiable
example : ∃ i : In, i.bypass = false ∧ i.join = .and ∧ ∃ x ∈ i.ups, x.status.isHalt = true :=
  ⟨mk .and 0 false none [u 0 .succeeded, u 1 .stopped], rfl, rfl, u 1 .stopped, by decide, rfl⟩
example : ∃ i : In, i.bypass = false ∧ i.ups ≠ [] ∧ (i.join = .nOfM ∧ 0 < i.threshold) ∧ i.joinFired = true :=
  ⟨mk .nOfM 1 true none [u 0 .succeeded], rfl, by decide, ⟨rfl, by decide⟩, rfl⟩
example : JoinMet (mk .nOfM 2 false none [u 0 .succeeded, u 1 .skipped, u 2 .running]) :=
  ready_sound _ (by decide)


/-! ## Engine half: a stage is claimed only when `evaluate_readiness` says READY

`Stab.Engine` models every handler as the list of effects it commits after reading state `s`.  An effect *claims*
stage `i` when the stage is NOT_STARTED in `s` and RUNNING in the written row. -/

section Engine
open Stab.Engine

/-- **Only StartStage(i) ever claims stage i, and only on READY** — for EVERY state `s` (so for every delivery
    order, early / late / duplicated StartStage, redelivery, state left by a crash or a sweep) and every message.
    Combined with `ready_sound`, the join condition over the durable upstream statuses holds at every claim, unless
    the jump-bypass flag is set — and only `JumpToStage` sets that flag, only on its target (`jump_sets_bypass_only_on_target`). -/
theorem claim_requires_ready (c : Cfg) (s : State) (row : Row) (i : Nat) (e : Eff)
    (he : e ∈ (handle c s row).1.flatten) (hc : Engine.Claims s i e) :
    ∃ r, row.msg = .startStage i r ∧ JoinMet (readyIn c s i (s.stage i).jumpBypass) := by
  obtain ⟨r, hr, hready⟩ := only_startStage_claims c s row i e he hc
  exact ⟨r, hr, ready_sound _ hready⟩

/-- the only exception to the join condition is explicit: the bypass flag is set by a JumpToStage, on its target only -/
theorem jump_sets_bypass_only_on_target (c : Cfg) (s : State) (row : Row) (j : Nat) (e : Eff)
    (he : e ∈ (handle c s row).1.flatten)
    (hb : ∃ new, e = .setStage j new ∧ (s.stage j).jumpBypass = false ∧ new.jumpBypass = true) :
    ∃ a, row.msg = .jumpToStage a j :=
  only_jump_sets_bypass c s row j e he hb

/-- a stage whose AND join has a halted upstream is never claimed while that holds, unless it is a jump target -/
theorem halted_upstream_blocks (c : Cfg) (s : State) (row : Row) (i u : Nat) (e : Eff)
    (he : e ∈ (handle c s row).1.flatten) (hc : Engine.Claims s i e)
    (hjoin : (c.stage i).join = JoinType.and) (hu : u ∈ c.reqs i) (hhalt : (s.stage u).status.isHalt = true) :
    (s.stage i).jumpBypass = true := by
  obtain ⟨r, _, hready⟩ := only_startStage_claims c s row i e he hc
  cases hb : (s.stage i).jumpBypass with
  | true => rfl
  | false =>
    exfalso
    rw [hb] at hready
    have hin : ({ ref := u, status := (s.stage u).status } : Ready.Up) ∈ (readyIn c s i false).ups := by
      simp only [readyIn, List.mem_map]
      exact ⟨u, hu, rfl⟩
    have := halted_upstream_blocks_and (readyIn c s i false) (by simp [readyIn]) (by simp [readyIn, hjoin]) _ hin hhalt
    rw [this.1] at hready
    cases hready

end Engine

end Stab.Props.C03
