/- Property theorems for C03 — to be filled in. -/
namespace Stab.Props.C03
end Stab.Props.C03
