/-
  C01 — Crash anywhere, restart with recovery: same outcome as an uninterrupted run.

  Model: `Op.crash id k` = the delivery of row `id` is killed after `k` durable commits (all Python state is lost;
  nothing volatile exists in the model), `Op.sweep` = recovery.  The harness enumerates every (delivery, k) of the
  reference run against the real engine and compares state lines with this model (quick: sampled, thorough: all).
  Theorems: the granularity facts the property rests on.  The end-to-end statement "final outcome = uninterrupted
  outcome" is FALSE of model and code (finding F18, witness below) and is otherwise validated by the harness.
-/
import Stab.Lemmas.EngineGood

namespace Stab.Props.C01
open Stab Stab.Engine

theorem processResult_len (c : Cfg) (st : StageSt) (id i t n : Nat) (oc : Outcome) :
    (processResult c st id i t n oc).length ≤ 1 := by
  unfold processResult
  cases oc <;> simp only [] <;> (repeat' split) <;> simp

/-- **Atomicity**: every handler except StartStage (claim | plan), CompleteStage (join-tracking writes | completion)
    and CancelWorkflow (flag | fan-out) commits AT MOST ONCE — its state change, its continuation messages and its
    processed mark become durable together or not at all. -/
theorem single_commit_handlers (c : Cfg) (s : State) (row : Row)
    (h1 : ∀ i r, row.msg ≠ .startStage i r) (h2 : ∀ i, row.msg ≠ .completeStage i) (h3 : row.msg ≠ .cancelWorkflow) :
    (handle c s row).1.length ≤ 1 := by
  unfold handle
  cases hm : row.msg with
  | startWorkflow => simp only [hStartWorkflow]; (repeat' split) <;> simp
  | startStage i r => exact absurd hm (h1 i r)
  | startTask i t => simp only [hStartTask]; (repeat' split) <;> simp
  | runTask i t =>
    simp only [hRunTask]
    split
    · rename_i txns hg
      unfold runTaskGuard at hg
      simp only [] at hg
      (repeat' split at hg) <;> simp at hg <;> subst hg <;> simp
    · unfold runTaskCommit
      simp only []
      (repeat' split)
      all_goals first | exact processResult_len .. | simp
  | completeTask i t st => simp only [hCompleteTask]; (repeat' split) <;> simp
  | completeStage i => exact absurd hm (h2 i)
  | skipStage i => simp only [hSkipStage]; (repeat' split) <;> simp
  | cancelStage i => simp only [hCancelStage]; (repeat' split) <;> simp
  | completeWorkflow r => simp only [hCompleteWorkflow]; (repeat' split) <;> simp
  | cancelWorkflow => exact absurd hm h3
  | jumpToStage a b => simp only [hJumpToStage]; (repeat' split) <;> simp
  | signalStage i p => simp only [hSignalStage]; (repeat' split) <;> simp

/-- StartStage commits at most twice (claim, plan). -/
theorem startStage_at_most_two_commits (c : Cfg) (s : State) (id i r : Nat) : (hStartStage c s id i r).length ≤ 2 := by
  unfold hStartStage hStartStageCore startIfReady
  simp only []
  (repeat' split) <;> simp

/-- **A kill before the first commit changes nothing durable** except the row's attempt counter: stage rows, workflow
    row, processed marks and the audit trail are those of the pre-state, the message is still queued. -/
theorem crash_before_first_commit (c : Cfg) (s : State) (id : Nat) :
    (step c s (.crash id 0)).stages = s.stages ∧ (step c s (.crash id 0)).wfStatus = s.wfStatus ∧
    (step c s (.crash id 0)).canceled = s.canceled ∧ (step c s (.crash id 0)).processed = s.processed ∧
    (step c s (.crash id 0)).audit = s.audit ∧
    (step c s (.crash id 0)).queue.map (fun r => (r.id, r.msg)) = s.queue.map (fun r => (r.id, r.msg)) := by
  simp only [step]
  split
  · simp
  · rename_i row0 _
    have hq : (claimRow s row0.id).queue.map (fun r => (r.id, r.msg)) = s.queue.map (fun r => (r.id, r.msg)) := by
      simp only [claimRow, List.map_map]
      apply List.map_congr_left
      intro r _
      simp only [Function.comp]
      split <;> rfl
    have hrec : ∀ (s1 : State) (row : Row), (recordExec c s1 row).stages = s1.stages ∧ (recordExec c s1 row).wfStatus = s1.wfStatus ∧
        (recordExec c s1 row).canceled = s1.canceled ∧ (recordExec c s1 row).processed = s1.processed ∧
        (recordExec c s1 row).audit = s1.audit ∧ (recordExec c s1 row).queue = s1.queue := by
      intro s1 row; unfold recordExec; split <;> simp [bumpCount]
    unfold deliverRow afterHandle
    simp only [List.take_zero, applyTxns, List.foldl_nil]
    have := hrec (claimRow s row0.id) { row0 with attempts := row0.attempts + 1 }
    (repeat' split) <;> simp_all

/-- a kill after the LAST commit of the handler (before the processor's own mark + ack) leaves exactly what an
    unacknowledged delivery leaves: the message is redelivered later; C02/C09 make that redelivery harmless -/
theorem crash_after_last_commit_eq_unacked (c : Cfg) (s : State) (id : Nat) (row0 : Row)
    (hf : s.queue.find? (fun r => r.id == id) = some row0)
    (hpos : 0 < (handle c (claimRow s row0.id) { row0 with attempts := row0.attempts + 1 }).1.length) :
    step c s (.crash id ((handle c (claimRow s row0.id) { row0 with attempts := row0.attempts + 1 }).1.length))
      = step c s (.deliverNoAck id) := by
  simp only [step, hf]
  unfold deliverRow afterHandle
  have hne : ((handle c (claimRow s row0.id) { row0 with attempts := row0.attempts + 1 }).1.length == 0) = false := by
    simpa using Nat.ne_of_gt hpos
  simp [List.take_length, hne]

/-! ### The end-to-end statement is false: finding F18

Kill between StartStage's claim commit and its plan commit, on a stage with predefined tasks: the stage is RUNNING
with NOT_STARTED tasks, so it is not recognised as a zombie (a zombie has no tasks); the redelivered StartStage is
ignored, recovery pushes StartTask, and the task runs WITHOUT the ancestor outputs merged into its context. -/

def chainStage (reqs : List Nat) : StageCfg :=
  { reqs := reqs, join := JoinType.and, threshold := 0, cont := false, failp := true, enabled := none,
    maxj := none, tasks := [[Outcome.succ]] }
def chain : Cfg := { wfMaxj := none, stages := [chainStage [], chainStage [0]] }

/-- uninterrupted FIFO run: stage 1's task sees stage 0's output -/
def fifoOps : List Op := (List.range 12).map (fun k => Op.deliver (k + 1))
/-- the same run, killed after StartStage(1)'s claim commit; restart, sweep, drain -/
def crashOps : List Op :=
  ((List.range 6).map (fun k => Op.deliver (k + 1))) ++ [Op.crash 7 1, Op.sweep, Op.deliver 7, Op.deliver 8, Op.deliver 9,
    Op.deliver 10, Op.deliver 11, Op.deliver 12, Op.deliver 13]

theorem crash_between_claim_and_plan_loses_upstream_data :
    ((run chain fifoOps).ledger.map (fun e => (e.s, e.seen))) = [(0, []), (1, [(0, 1)])] ∧
    ((run chain crashOps).ledger.map (fun e => (e.s, e.seen))) = [(0, []), (1, [])] ∧
    (run chain crashOps).wfStatus = (run chain fifoOps).wfStatus := by
  decide

end Stab.Props.C01
