/- Property theorems for C01 — to be filled in. -/
namespace Stab.Props.C01
end Stab.Props.C01
