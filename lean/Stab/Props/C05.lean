/- C05 — first engine facts; the driver invariant (G2) is added below as it lands. -/
import Stab.Lemmas.EngineBasic
namespace Stab.Props.C05
open Stab Stab.Engine
/-- A workflow with a TERMINAL stage is never reported SUCCEEDED by `_determine_final_status`; it is TERMINAL. -/
theorem terminal_stage_fails_workflow (c : Cfg) (s : State) (retry : Nat)
    (h : (s.stages.map (·.status)).contains .terminal = true) :
    finalStatus c s retry = some .terminal := by
  have hne : (s.stages.map (·.status)).all (·.isContinuable) = false := by
    simp only [List.contains_eq_any_beq, List.any_eq_true] at h
    obtain ⟨x, hx, hxe⟩ := h
    have hx' : x = .terminal := (by simpa using hxe : Status.terminal = x).symm
    subst hx'
    apply Bool.eq_false_iff.mpr
    intro hall
    have := (List.all_eq_true.mp hall) _ hx
    exact absurd this (by decide)
  unfold finalStatus
  simp only [hne, h, Bool.false_eq_true, ↓reduceIte]
end Stab.Props.C05
