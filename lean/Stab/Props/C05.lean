/- C05 — first engine facts; the driver invariant (G2) is added below as it lands. -/
import Stab.Lemmas.EngineBasic
import Stab.Lemmas.EngineClaim
import Stab.Lemmas.EngineLive2
import Stab.Lemmas.EngineCancel
namespace Stab.Props.C05
open Stab Stab.Engine
/-- A workflow with a TERMINAL stage is never reported SUCCEEDED by `_determine_final_status`; it is TERMINAL. -/
theorem terminal_stage_fails_workflow (c : Cfg) (s : State) (retry : Nat)
    (h : (s.stages.map (·.status)).contains .terminal = true) :
    finalStatus c s retry = some .terminal := by
  have hne : (s.stages.map (·.status)).all (·.isContinuable) = false := by
    simp only [List.contains_eq_any_beq, List.any_eq_true] at h
    obtain ⟨x, hx, hxe⟩ := h
    have hx' : x = .terminal := (by simpa using hxe : Status.terminal = x).symm
    subst hx'
    apply Bool.eq_false_iff.mpr
    intro hall
    have := (List.all_eq_true.mp hall) _ hx
    exact absurd this (by decide)
  unfold finalStatus
  simp only [hne, h, Bool.false_eq_true, ↓reduceIte]

/-- FULL STATEMENT "SUCCEEDED ⇒ every top-level stage continuable" is false of model and code: a STOPPED stage
    (failPipeline=False / TaskResult.stopped) with no incomplete sibling branch yields SUCCEEDED (finding F5).
    Proved: SUCCEEDED is reported only if every stage is continuable or that STOPPED clause applies. -/
theorem succeeded_means_all_continuable_partial (c : Cfg) (s : State) (retry : Nat)
    (h : finalStatus c s retry = some .succeeded) :
    (s.stages.map (·.status)).all (·.isContinuable) = true ∨ (s.stages.map (·.status)).contains .stopped = true := by
  unfold finalStatus at h
  simp only [] at h
  (repeat' split at h) <;> simp_all

/-- When CompleteWorkflow finishes a workflow unsuccessfully it pushes a CancelStage for EVERY stage that is still
    RUNNING, in the same commit; when it reports SUCCEEDED no stage is RUNNING. -/
theorem finished_has_no_running_stage (c : Cfg) (s : State) (id retry : Nat) (status : Status)
    (hf : finalStatus c s retry = some status) (hlegal : Status.canTransition s.wfStatus status = true)
    (hnc : s.wfStatus.isComplete = false) (hlen : s.stages.length = c.n) :
    (status = .succeeded → ∀ st ∈ s.stages, st.status ≠ .running) ∧
    (status ≠ .succeeded → ∀ i, i < c.n → (s.stage i).status = .running →
        ∃ txn ∈ hCompleteWorkflow c s id retry, Eff.push (.cancelStage i) ∈ txn) := by
  constructor
  · intro hs st hst hrun
    subst hs
    rcases succeeded_means_all_continuable_partial c s retry hf with h | h
    · have := (List.all_eq_true.mp h) st.status (List.mem_map_of_mem hst)
      rw [hrun] at this; cases this
    · -- STOPPED clause: `otherIncomplete` is false, so no stage is RUNNING
      unfold finalStatus at hf
      simp only [] at hf
      (repeat' split at hf) <;> simp_all
      all_goals (
        obtain ⟨k, hk, hke⟩ := List.getElem_of_mem hst
        have hsk : s.stage k = st := by simp [State.stage, List.getD_eq_getElem?_getD, hk, hke]
        first
        | (have h1 : ∀ x : StageSt, x ∈ s.stages → x.status.isContinuable = true := by assumption
           have := h1 st hst
           rw [hrun] at this
           cases this)
        | (rename_i hinc
           have := (hinc k (by omega)).1.1.1
           rw [hsk] at this
           exact this hrun))
  · intro hns i hi hrun
    simp only [hCompleteWorkflow, hnc, hf, hlegal]
    simp [hns, hi, hrun]

/-- **F43 repair**: a workflow is never reported SUCCEEDED while a stage is explicitly waiting (SUSPENDED for a signal,
    PAUSED for a resume) - neither by the all-continuable clause nor by the STOPPED clause, whose "no other branch is
    incomplete" test used to look at RUNNING and ready NOT_STARTED stages only. -/
theorem succeeded_leaves_no_waiting_stage (c : Cfg) (s : State) (retry : Nat)
    (hf : finalStatus c s retry = some .succeeded) (hlen : s.stages.length = c.n) :
    ∀ st ∈ s.stages, st.status ≠ .suspended ∧ st.status ≠ .paused := by
  intro st hst
  obtain ⟨k, hk, hke⟩ := List.getElem_of_mem hst
  have hsk : s.stage k = st := by simp [State.stage, List.getD_eq_getElem?_getD, hk, hke]
  unfold finalStatus at hf
  simp only [] at hf
  (repeat' split at hf) <;> simp_all
  · rename_i h1
    have := h1 st hst
    constructor <;> (intro h; rw [h] at this; cases this)
  · rename_i hinc
    have h2 := (hinc.2 k (by omega)).1
    rw [hsk] at h2
    exact ⟨h2.1.2, h2.2⟩

/-- **A workflow that has reached a final status starts no further stage** (F37 repair): a StartStage arriving
    afterwards commits nothing on a NOT_STARTED stage … -/
theorem startStage_after_finish_is_inert (c : Cfg) (s : State) (id i r : Nat)
    (hf : s.wfStatus.isComplete = true) (hn : (s.stage i).status = .notStarted) : hStartStage c s id i r = [] := by
  simp [hStartStage, hf, hn]

/-- … hence no handler of any message ever turns a NOT_STARTED stage RUNNING once the workflow is final: the state
    "finished workflow with a stage RUNNING that nobody will complete" cannot be entered by a late StartStage. -/
theorem no_claim_after_finish (c : Cfg) (s : State) (row : Row) (i : Nat) (e : Eff)
    (hf : s.wfStatus.isComplete = true) (he : e ∈ (handle c s row).1.flatten) : ¬ Claims s i e := by
  intro hcl
  obtain ⟨r, hm, _⟩ := only_startStage_claims c s row i e he hcl
  obtain ⟨new, rfl, hns, _⟩ := hcl
  have : hStartStage c s row.id i r = [] := startStage_after_finish_is_inert c s row.id i r hf hns
  simp [handle, hm, this] at he

/-! ### the driver invariant: a drained queue means a final workflow (plain workload class) -/

/-- **Whenever the queue is drained the workflow is in a final status** — for every workflow of the plain class
    (`PlainCfg`: AND-join DAG with requisites listed before the stage, every stage with at least one task, task
    results success / terminal failure / failed-continue / exception / transient failure with retries / RUNNING polls;
    no OR-split, stageEnabled, failPipeline=False, jumps or suspends) and EVERY delivery schedule: any pending message
    may be delivered next (each delivery acknowledged), in any order, for any number of steps.  Proved through the
    inductive invariant `Live` (`Stab/Lemmas/EngineLive2.lean`): every RUNNING stage owns exactly one matching token
    message, every startable stage a StartStage, every failed or fully completed workflow a CompleteWorkflow. -/
theorem quiescent_is_final (c : Cfg) (hc : PlainCfg c) (ops : List Op) (hd : DeliverOnly ops)
    (hq : (run c ops).queue = []) : (run c ops).wfStatus.isComplete = true :=
  plain_drained_is_final c hc ops (fun op hop => Or.inl (hd op hop)) hq

/-- the same with cancel requests arriving at any moment of the schedule (before the start, while stages run, after the
    end): the invariant `Live` carries the run up to the delivery that accepts the cancel, `CancInv` (C17) from there on -/
theorem quiescent_is_final_with_cancel (c : Cfg) (hc : PlainCfg c) (ops : List Op) (hd : DeliverOrCancel ops)
    (hq : (run c ops).queue = []) : (run c ops).wfStatus.isComplete = true :=
  plain_drained_is_final c hc ops hd hq

/-- … and while messages are pending in a non-final workflow none of its RUNNING stages is orphaned: each has its
    one token message in the queue (so "no handler running and queue empty" cannot coexist with a RUNNING stage). -/
theorem running_stage_has_its_message (c : Cfg) (hc : PlainCfg c) (ops : List Op) (hd : DeliverOrCancel ops) (i : Nat)
    (hi : i < c.n) (hnc : (run c ops).canceled = false) (hw : (run c ops).wfStatus.isComplete = false)
    (hr : ((run c ops).stage i).status = .running) :
    ∃ x ∈ (run c ops).queue, isTok i x.msg = true := by
  rcases run_live_or_canceled c hc ops hd with hcan | hlive
  · rw [hcan] at hnc; cases hnc
  rcases hlive.cases with h1 | h1 | h1
  · rw [h1] at hw; cases hw
  · rw [(h1.pristine i hi).1] at hr; cases hr
  · obtain ⟨k, w, _, htk, hw', _⟩ := (h1.stages i hi).busy hr
    exact ⟨w, hw', tokOK_isTok i _ k _ htk⟩

/-- the statement is FALSE outside the plain class as soon as jumps are allowed (known findings F4 / F28: jump loops
    can wedge), which is why no unconditional version exists; for joins other than AND, OR-splits, disabled stages,
    suspends and for schedules with redeliveries / crashes / sweeps it is explored by the monitors (`mon_c05`). -/
theorem quiescent_is_final_partial (c : Cfg) (hc : PlainCfg c) (ops : List Op) (hd : DeliverOnly ops)
    (hq : (run c ops).queue = []) : (run c ops).wfStatus.isComplete = true := quiescent_is_final c hc ops hd hq

-- non-vacuity: a plain two-stage workflow whose second stage fails; delivering its 14 messages in order drains the queue
def plainDemo : Cfg :=
  { wfMaxj := none,
    stages := [
      { reqs := [], join := JoinType.and, threshold := 0, cont := false, failp := true, enabled := none, maxj := none,
        tasks := [[Outcome.succ]] },
      { reqs := [0], join := JoinType.and, threshold := 0, cont := false, failp := true, enabled := none, maxj := none,
        tasks := [[Outcome.terminal]] }] }

example : PlainCfg plainDemo := by
  refine ⟨?_, ?_⟩
  · intro sc hsc
    simp [plainDemo] at hsc
    rcases hsc with rfl | rfl <;> refine ⟨rfl, rfl, rfl, rfl, by simp, ?_⟩ <;> intro script hs o ho <;> simp at hs <;> subst hs <;> simp at ho <;> subst ho <;> rfl
  · intro i u hu
    match i with
    | 0 => simp [plainDemo, Cfg.reqs, Cfg.stage] at hu
    | 1 => simp [plainDemo, Cfg.reqs, Cfg.stage] at hu; omega
    | (n + 2) =>
      simp [plainDemo, Cfg.reqs, Cfg.stage] at hu
      have hd : (default : StageCfg).reqs = [] := rfl
      rw [hd] at hu; cases hu

def plainDemoOps : List Op := (List.range 14).map (fun k => Op.deliver (k + 1))

example : (run plainDemo plainDemoOps).queue = [] ∧ (run plainDemo plainDemoOps).wfStatus = .terminal := by decide

/-! ### the stage-status rule (`StageExecution.determine_status`, tasks only): finished only when the tasks are -/

/-- a task status with work outstanding -/
def openTask (t : Status) : Bool :=
  t == .notStarted || t == .running || t == .paused || t == .buffered || t == .suspended

/-- **A stage is reported SUCCEEDED only when every one of its tasks succeeded or was skipped** - for every task list,
    every current status, every stage configuration. -/
theorem stage_succeeded_means_every_task_ok (sc : StageCfg) (cur : Status) (ts : List Status) (hne : ts ≠ [])
    (h : determineStatus sc cur ts = .succeeded) :
    ∀ t ∈ ts, t = .succeeded ∨ t = .skipped := by
  have hemp : ts.isEmpty = false := by cases ts <;> simp_all
  unfold determineStatus at h
  simp only [hemp, Bool.false_eq_true, ↓reduceIte] at h
  intro t ht
  (repeat' split at h) <;> simp_all [failureStatus]
  · split at h
    · cases h
    · split at h <;> cases h
  · rename_i h1 h2
    rcases h1 t ht with (h3 | h3) | h3
    · exact Or.inl h3
    · exact Or.inr h3
    · exact absurd (h3 ▸ ht) h2

/-- **A stage with tasks is given a completed status only when no task has work outstanding, or a task has halted**
    (TERMINAL / STOPPED / CANCELED task: the stage ends with the failure status and CancelStage / the sweep deal with
    the rest).  So CompleteStage never turns a stage with a NOT_STARTED, RUNNING, PAUSED, BUFFERED or SUSPENDED task
    into SUCCEEDED / FAILED_CONTINUE / SKIPPED behind that task's back. -/
theorem stage_complete_means_no_open_task_or_a_halted_one (sc : StageCfg) (cur : Status) (ts : List Status) (hne : ts ≠ [])
    (h : (determineStatus sc cur ts).isComplete = true) :
    (∀ t ∈ ts, openTask t = false) ∨ ts.contains .terminal = true ∨ ts.contains .stopped = true ∨ ts.contains .canceled = true := by
  have hemp : ts.isEmpty = false := by cases ts <;> simp_all
  unfold determineStatus at h
  simp only [hemp, Bool.false_eq_true, ↓reduceIte] at h
  by_cases h1 : ts.contains .terminal = true
  · exact Or.inr (Or.inl h1)
  by_cases h2 : ts.contains .stopped = true
  · exact Or.inr (Or.inr (Or.inl h2))
  by_cases h3 : ts.contains .canceled = true
  · exact Or.inr (Or.inr (Or.inr h3))
  left
  simp only [h1, h2, h3, Bool.false_eq_true, ↓reduceIte] at h
  intro t ht
  (repeat' split at h) <;> simp_all [openTask, Status.isComplete]
  all_goals (
    rename_i h4 _
    rcases h4 t ht with (h5 | h5) | h5 <;> subst h5 <;> decide)

/-- a stage without tasks: SUCCEEDED when it is RUNNING (it was started and has nothing to do), NOT_STARTED otherwise -/
theorem taskless_stage_status (sc : StageCfg) (cur : Status) :
    determineStatus sc cur [] = if cur = .running then .succeeded else .notStarted := by
  cases cur <;> simp [determineStatus]

-- non-vacuity: the hypotheses are met by concrete task lists, and the excluded cases really differ
example : determineStatus default .running [.succeeded, .skipped] = .succeeded := by decide
example : determineStatus default .running [.succeeded, .failedContinue] = .failedContinue := by decide
example : (determineStatus default .running [.succeeded, .running]).isComplete = false := by decide
example : (determineStatus default .running [.terminal, .running]).isComplete = true := by decide   -- the halted-task disjunct
example : determineStatus { (default : StageCfg) with cont := true } .running [.terminal, .notStarted] = .failedContinue := by decide

/-- **CompleteStage turns a stage SUCCEEDED only when its tasks are finished** - for every state, every delivery (early, late,
    duplicated): whenever a commit of the CompleteStage handler writes a stage row whose status becomes SUCCEEDED, that row is
    the handler's own stage, its task list is written back unchanged, and (when the stage has tasks) every task is SUCCEEDED
    or SKIPPED.  The handler-level consequence of `stage_succeeded_means_every_task_ok`; the only other rows the handler
    writes are join-tracking updates of downstream stages, which keep their status (`joinTracking_keeps_status`). -/
theorem completeStage_writes_succeeded_only_when_tasks_done (c : Cfg) (s : State) (id i : Nat) (txn : Txn)
    (ht : txn ∈ hCompleteStage c s id i) (j : Nat) (st' : StageSt) (he : Eff.setStage j st' ∈ txn)
    (hs : st'.status = .succeeded) (hchg : (s.stage j).status ≠ .succeeded) :
    j = i ∧ st'.tasks = (s.stage i).tasks ∧
      ((s.stage i).tasks ≠ [] → ∀ t ∈ (s.stage i).tasks, t.status = .succeeded ∨ t.status = .skipped) := by
  unfold hCompleteStage at ht
  simp only [] at ht
  split at ht
  · simp at ht; subst ht; simp at he
  split at ht
  · split at ht
    · simp at ht; subst ht; simp at he
    · simp at ht
  split at ht
  · simp at ht; subst ht; simp at he
  split at ht
  · simp at ht; subst ht; simp at he
    obtain ⟨_, rfl⟩ := he
    simp at hs
  split at ht
  · rename_i hdone
    rw [List.mem_append] at ht
    rcases ht with ht | ht
    · have := joinTracking_keeps_status c s i txn ht j st' he
      rw [hs] at this
      exact absurd this.symm hchg
    · simp only [List.mem_singleton] at ht
      subst ht
      simp only [List.mem_append, List.mem_cons, Eff.setStage.injEq, reduceCtorEq, List.not_mem_nil, or_false] at he
      rcases he with ⟨rfl, rfl⟩ | he
      · refine ⟨rfl, rfl, ?_⟩
        intro hne t htm
        simp only at hs
        have hne' : (s.stage j).tasks.map (·.status) ≠ [] := by simpa using hne
        have := stage_succeeded_means_every_task_ok (c.stage j) (s.stage j).status _ hne' hs t.status (List.mem_map_of_mem htm)
        exact this
      · exfalso
        unfold splitCont at he
        split at he
        · simp at he
        · simp at he
  · simp at ht; subst ht; simp at he
    obtain ⟨_, rfl⟩ := he
    rename_i hnd _
    exfalso
    apply hnd
    have hs' : determineStatus (c.stage i) (s.stage i).status (List.map (fun x => x.status) (s.stage i).tasks) = Status.succeeded := hs
    simp [hs']

/-- one stage, one succeeding task -/
def oneStage : Cfg :=
  { wfMaxj := none,
    stages := [{ reqs := [], join := JoinType.and, threshold := 0, cont := false, failp := true, enabled := none, maxj := none,
                 tasks := [[Outcome.succ]] }] }

-- non-vacuity: after StartWorkflow .. CompleteTask the CompleteStage handler does write the stage SUCCEEDED
example : (hCompleteStage oneStage (run oneStage [.deliver 1, .deliver 2, .deliver 3, .deliver 4, .deliver 5]) 6 0).any
    (fun txn => txn.any (fun e => match e with | .setStage 0 st' => st'.status == .succeeded | _ => false)) = true := by decide

end Stab.Props.C05
