/- Property theorems for C05 — to be filled in. -/
namespace Stab.Props.C05
end Stab.Props.C05
