/-
  C06 — Completed is final; every durable status change is a legal transition.

  Part 1 (this section): the published table.  `Stab.Gen.Status` is regenerated from
  `src/stabilize/models/status.py` on every run; the theorems below tie it to the hand-written
  `Stab.Status` used by every model, and state the table-level facts the property rests on.
  Part 2 (engine): every status write of every handler is legal — see the section `Engine`.
-/
import Stab.Model.Status
import Stab.Gen.Status
import Stab.Lemmas.EngineGood
import Stab.Lemmas.EngineFrozen
import Stab.Lemmas.EngineCrash

namespace Stab.Props.C06
open Stab Stab.Status

/-- lookup in the generated `VALID_TRANSITIONS` -/
def genNext (s : String) : List String :=
  match Stab.Gen.Status.validTransitions.lookup s with
  | some l => l
  | none => []

/-- The generated enum (names, `complete`, `halt` flags, declaration order) is the model's enum. -/
theorem gen_members_eq_model :
    Stab.Gen.Status.members = Status.all.map (fun s => (s.name, s.isComplete, s.isHalt)) := by
  decide

/-- The generated `VALID_TRANSITIONS` and the model's `validNext` agree (order-independent). -/
theorem gen_transitions_eq_model (a b : Status) :
    (genNext a.name).contains b.name = (validNext a).contains b := by
  cases a <;> cases b <;> decide

/-- every key of the generated table is a known status, and every status is a key -/
theorem gen_transition_keys :
    (Stab.Gen.Status.validTransitions.map Prod.fst).all (fun k => (Status.all.map Status.name).contains k) = true
    ∧ (Status.all.map Status.name).all (fun k => (Stab.Gen.Status.validTransitions.map Prod.fst).contains k) = true := by
  decide

theorem gen_can_transition_shape : Stab.Gen.Status.canTransitionShapeOk = true := by decide

/-- the status sets of the source are the model's predicates -/
theorem gen_sets_eq_model (s : Status) :
    Stab.Gen.Status.completedStatuses.contains s.name = s.isComplete
    ∧ Stab.Gen.Status.continuableStatuses.contains s.name = s.isContinuable
    ∧ Stab.Gen.Status.haltStatuses.contains s.name = s.isHalt
    ∧ Stab.Gen.Status.activeStatuses.contains s.name = s.isActive
    ∧ Stab.Gen.Status.failureStatuses.contains s.name = s.isFailure := by
  cases s <;> decide

/-- **Completed is final (table level).** A completed status has no successor in the table. -/
theorem complete_has_no_successor (a b : Status) (h : a.isComplete = true) :
    canTransition a b = true → a = b := by
  cases a <;> cases b <;> simp_all [isComplete, canTransition, validNext]

/-- halting statuses are completed statuses -/
theorem halt_subset_complete (a : Status) : a.isHalt = true → a.isComplete = true := by
  cases a <;> simp [isHalt, isComplete]

theorem continuable_halt_disjoint (a : Status) : ¬ (a.isContinuable = true ∧ a.isHalt = true) := by
  cases a <;> simp [isContinuable, isHalt]

/-- every target of the table is a status of the enum and no status lists itself -/
theorem table_irreflexive (a : Status) : (validNext a).contains a = false := by
  cases a <;> decide

/-- `name` is injective, so comparing names (what the SQL rows hold) is comparing statuses -/
theorem name_injective (a b : Status) : a.name = b.name → a = b := by
  cases a <;> cases b <;> decide

theorem ofName_name (a : Status) : Status.ofName? a.name = some a := by
  cases a <;> decide

-- non-vacuity: a legal and an illegal transition
example : canTransition .running .succeeded = true ∧ canTransition .canceled .suspended = false := by decide


/-! ## Part 2 — the engine: every durable status write of every handler

`Stab.Engine` models the handlers as lists of effects; `applyEff` appends to `State.audit` exactly the
rows the SQL triggers of the harness record (old ≠ new).  `LegalRow r` = `can_transition r.old r.new`. -/

section Engine
open Stab.Engine

/-- **Handlers write only legal transitions — in ANY state, for any delivered message other than
    JumpToStage** (a CompleteTask message must carry a status RUNNING may move to; `queue_ok` below shows
    every queued CompleteTask does).  No reachability hypothesis: stale, duplicated and reordered
    deliveries are all covered, because each handler re-reads and guards on the durable status. -/
theorem handler_writes_legal (c : Cfg) (s : State) (row : Row) (h : MsgOK row.msg) :
    EffAll LegalEff s (handle c s row).1.flatten :=
  handle_legal c s row h

/-- **Every durable status change is legal, along every run**: all schedules (any delivery order, redelivery
    of unacknowledged messages), crashes after any number of commits, recovery sweeps, cancels, signals —
    for every workflow whose task scripts contain no jump. -/
theorem every_write_legal_partial (c : Cfg) (hc : NoJumpCfg c) (ops : List Op) :
    ∀ r ∈ (run c ops).audit, LegalRow r :=
  (run_good c hc ops).audit

/-- **Completed is final** on those runs: a completed status never changes again. -/
theorem complete_is_final_partial (c : Cfg) (hc : NoJumpCfg c) (ops : List Op) :
    ∀ r ∈ (run c ops).audit, r.old.isComplete = true → r.old = r.new :=
  fun r hr hcomp => complete_has_no_successor r.old r.new hcomp (every_write_legal_partial c hc ops r hr)

/-- **Completed is final, as a statement about states** (jump-free workflows): once a stage's durable status is a
    completed one after a history `ops1`, it is the same after every continuation `ops2` — deliveries in any order,
    redeliveries, kills after any number of commits, sweeps, cancels, signals, nested deliveries; any length. -/
theorem completed_stage_stays (c : Cfg) (hc : NoJumpCfg c) (ops1 ops2 : List Op) (i : Nat)
    (h : ((run c ops1).stage i).status.isComplete = true) :
    ((run c (ops1 ++ ops2)).stage i).status = ((run c ops1).stage i).status := by
  have hrun : run c (ops1 ++ ops2) = ops2.foldl (step c) (run c ops1) := by simp [run, List.foldl_append]
  rw [hrun]
  exact foldl_stable (stageFinal_stable i _ h) c hc ops2 _ (run_good c hc ops1) rfl

/-- the same for a task's status … -/
theorem completed_task_stays (c : Cfg) (hc : NoJumpCfg c) (ops1 ops2 : List Op) (i t : Nat)
    (h : (taskStatus (run c ops1) i t).isComplete = true) :
    taskStatus (run c (ops1 ++ ops2)) i t = taskStatus (run c ops1) i t := by
  have hrun : run c (ops1 ++ ops2) = ops2.foldl (step c) (run c ops1) := by simp [run, List.foldl_append]
  rw [hrun]
  exact (foldl_frozen c hc ops2 (run c ops1) i t _ _ (run_good c hc ops1) h ⟨rfl, rfl⟩).status

/-- … and for the workflow's own status: a final workflow status is final. -/
theorem final_workflow_status_stays (c : Cfg) (hc : NoJumpCfg c) (ops1 ops2 : List Op)
    (h : (run c ops1).wfStatus.isComplete = true) :
    (run c (ops1 ++ ops2)).wfStatus = (run c ops1).wfStatus := by
  have hrun : run c (ops1 ++ ops2) = ops2.foldl (step c) (run c ops1) := by simp [run, List.foldl_append]
  rw [hrun]
  exact foldl_stable (wfFinal_stable _ h) c hc ops2 _ (run_good c hc ops1) rfl

/-- **... and without the jump-free restriction**: for EVERY workflow (jump loops, OR-splits, suspends included) and every
    operation list - kills after any commit, unacknowledged redeliveries, sweeps, a second worker's nested deliveries -
    a workflow status that is final is never written again.  (Stage and task statuses can legitimately be re-armed by a
    jump; the workflow's own final status cannot.)  Proof: `Lemmas/EngineCrash.lean`, from the shape of a partial delivery
    and the fact that only StartWorkflow / CompleteWorkflow write the workflow status, both only while it is not final. -/
theorem final_workflow_status_stays_always (c : Cfg) (ops1 ops2 : List Op)
    (h : (run c ops1).wfStatus.isComplete = true) :
    (run c (ops1 ++ ops2)).wfStatus = (run c ops1).wfStatus :=
  Stab.Engine.final_wf_status_stays_always c ops1 ops2 h

/-- every CompleteTask message that is ever queued carries a status RUNNING may legally move to, and no
    JumpToStage message exists when no script jumps -/
theorem queue_ok (c : Cfg) (hc : NoJumpCfg c) (ops : List Op) : ∀ r ∈ (run c ops).queue, MsgOK r.msg :=
  (run_good c hc ops).queue

/-! FULL STATEMENT (not proved): `∀ c ops, ∀ r ∈ (run c ops).audit, LegalRow r ∨ r is the re-arm of a stage/task by a
JumpToStage step` — i.e. the two theorems above without `NoJumpCfg`.  What is missing: JumpToStage writes through
`reset_stage_to_*` without validation; with the stale-jump guard (fix F34: a jump whose source stage is no longer
RUNNING is ignored) the source writes are legal (`jump_source_writes_legal` below), but marking the bypassed
stages SKIPPED is only legal if none of their tasks holds a completed status, which needs an invariant over
stale messages of earlier loop iterations (the F4 family) that is not established.  Before F34 the statement was
false (a JumpToStage handled after CancelStage turned CANCELED into SUCCEEDED; replays/C06/F34-*.json). -/

/-- with the stale-jump guard a JumpToStage only acts on a RUNNING source, so completing / failing the source
    (forward jump, exhausted budget, unknown target) is a legal transition -/
theorem jump_source_writes_legal (c : Cfg) (s : State) (id src tgt : Nat)
    (h : (s.stage src).status ≠ Status.running) : hJumpToStage c s id src tgt = [[Eff.mark id]] := by
  unfold hJumpToStage
  simp [h]

-- non-vacuity of `NoJumpCfg` and of the audit: a jump-free two-stage run with a failing task writes 9 legal rows
def demoCfg : Cfg :=
  { wfMaxj := none,
    stages := [
      { reqs := [], join := JoinType.and, threshold := 0, cont := false, failp := true, enabled := none, maxj := none,
        tasks := [[Outcome.succ]] },
      { reqs := [0], join := JoinType.and, threshold := 0, cont := false, failp := true, enabled := none, maxj := none,
        tasks := [[Outcome.terminal]] }] }

example : NoJumpCfg demoCfg := by
  intro sc hsc script hs o ho t
  simp [demoCfg] at hsc
  rcases hsc with rfl | rfl <;> simp at hs <;> subst hs <;> simp at ho <;> subst ho <;> simp

example : (run demoCfg [Op.deliver 1, Op.deliver 2, Op.deliver 3, Op.deliver 4, Op.deliver 5, Op.deliver 6]).audit.length = 5 := by decide

end Engine

end Stab.Props.C06
