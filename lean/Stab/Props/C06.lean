/-
  C06 — Completed is final; every durable status change is a legal transition.

  Part 1 (this section): the published table.  `Stab.Gen.Status` is regenerated from
  `src/stabilize/models/status.py` on every run; the theorems below tie it to the hand-written
  `Stab.Status` used by every model, and state the table-level facts the property rests on.
  Part 2 (engine): every status write of every handler is legal — see the section `Engine`.
-/
import Stab.Model.Status
import Stab.Gen.Status

namespace Stab.Props.C06
open Stab Stab.Status

/-- lookup in the generated `VALID_TRANSITIONS` -/
def genNext (s : String) : List String :=
  match Stab.Gen.Status.validTransitions.lookup s with
  | some l => l
  | none => []

/-- The generated enum (names, `complete`, `halt` flags, declaration order) is the model's enum. -/
theorem gen_members_eq_model :
    Stab.Gen.Status.members = Status.all.map (fun s => (s.name, s.isComplete, s.isHalt)) := by
  decide

/-- The generated `VALID_TRANSITIONS` and the model's `validNext` agree (order-independent). -/
theorem gen_transitions_eq_model (a b : Status) :
    (genNext a.name).contains b.name = (validNext a).contains b := by
  cases a <;> cases b <;> decide

/-- every key of the generated table is a known status, and every status is a key -/
theorem gen_transition_keys :
    (Stab.Gen.Status.validTransitions.map Prod.fst).all (fun k => (Status.all.map Status.name).contains k) = true
    ∧ (Status.all.map Status.name).all (fun k => (Stab.Gen.Status.validTransitions.map Prod.fst).contains k) = true := by
  decide

theorem gen_can_transition_shape : Stab.Gen.Status.canTransitionShapeOk = true := by decide

/-- the status sets of the source are the model's predicates -/
theorem gen_sets_eq_model (s : Status) :
    Stab.Gen.Status.completedStatuses.contains s.name = s.isComplete
    ∧ Stab.Gen.Status.continuableStatuses.contains s.name = s.isContinuable
    ∧ Stab.Gen.Status.haltStatuses.contains s.name = s.isHalt
    ∧ Stab.Gen.Status.activeStatuses.contains s.name = s.isActive
    ∧ Stab.Gen.Status.failureStatuses.contains s.name = s.isFailure := by
  cases s <;> decide

/-- **Completed is final (table level).** A completed status has no successor in the table. -/
theorem complete_has_no_successor (a b : Status) (h : a.isComplete = true) :
    canTransition a b = true → a = b := by
  cases a <;> cases b <;> simp_all [isComplete, canTransition, validNext]

/-- halting statuses are completed statuses -/
theorem halt_subset_complete (a : Status) : a.isHalt = true → a.isComplete = true := by
  cases a <;> simp [isHalt, isComplete]

theorem continuable_halt_disjoint (a : Status) : ¬ (a.isContinuable = true ∧ a.isHalt = true) := by
  cases a <;> simp [isContinuable, isHalt]

/-- every target of the table is a status of the enum and no status lists itself -/
theorem table_irreflexive (a : Status) : (validNext a).contains a = false := by
  cases a <;> decide

/-- `name` is injective, so comparing names (what the SQL rows hold) is comparing statuses -/
theorem name_injective (a b : Status) : a.name = b.name → a = b := by
  cases a <;> cases b <;> decide

theorem ofName_name (a : Status) : Status.ofName? a.name = some a := by
  cases a <;> decide

-- non-vacuity: a legal and an illegal transition
example : canTransition .running .succeeded = true ∧ canTransition .canceled .suspended = false := by decide

end Stab.Props.C06
