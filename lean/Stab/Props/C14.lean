/-
  C14 — Transient failures: bounded number of retries, saved progress is kept.

  Model: `Stab.Retry` (attempt counter of a RunTask followed through
  handle_exception → copy_with_attempts → push_message → poll_one → deserialize_message,
  plus the stage context written in the same commit as the retry / polling message).

  * `Variant.current` is the repository as found.  For it the bound is FALSE
    (`retry_unbounded_current`, `retry_bounded_fails_current`): finding F1.
  * `Variant.fixed` is the repository with proposed_fixes/F1.diff.  For it the bound holds for
    every schedule of deliveries and processor-level redeliveries (`retry_bounded`), is reached
    exactly (`retry_limit_reached`), and polling stays unbounded (`polling_unbounded_fixed`).
  * The context theorems hold for both variants.
-/
import Stab.Model.Retry
import Stab.Lemmas.C14

namespace Stab.Props.C14
open Stab Stab.Retry

/-! ### vocabulary (defined in `Stab/Lemmas/C14.lean`, repeated here for the reader)

  `AlwaysFails sc   := ∀ n, ∃ u, sc.at n = .failT u`      the task raises TransientError on every execution
  `AlwaysRunning sc := ∀ n, ∃ u, sc.at n = .running u`    the task answers RUNNING on every execution
  `seenMax e r`     the limit `handle_exception` reads off a message delivered from row `r`:
                    `message.max_attempts or 10`, where `message.max_attempts` is the dataclass default 10
                    unless the environment copies the row's column back (`e.restoreMax`)
  `limit e m := seenMax e (initRow m)`                    the limit in force for a chain whose first RunTask has `max_attempts = m`
  `updOf act`       the context update an execution hands to the engine
  `ctxAfter sc c n` `c ⊕ update_1 ⊕ … ⊕ update_n` (`ctxAfter_eq_foldl`: it is the left fold of `merge`)
-/

/-! ### F1: the code as found retries forever -/

/-- **F1 (counterexample to the bound, code as found).** Whatever the limit is (as long as it is
    at least 3 — the default is 10), a task that always fails transiently is executed `n` times by
    `n` deliveries, for EVERY `n`, and is still scheduled for another retry: there is no bound. -/
theorem retry_unbounded_current (e : Env) (hq : 0 < e.qmax) (m : Nat) (hm : 3 ≤ limit e m)
    (sc : Script) (hf : AlwaysFails sc) (c : Ctx) (n : Nat) :
    let s := run .current e sc (init m c) (List.replicate n .handle)
    s.execs = n ∧ s.done = none ∧ ∃ r, s.row = some r ∧ r.attempts = 0 := by
  have gen : ∀ (n k : Nat) (s : State), CurInv e (limit e m) s k →
      CurInv e (limit e m) (run .current e sc s (List.replicate n .handle)) (k + n) := by
    intro n
    induction n with
    | zero => intro k s h; simpa [run] using h
    | succ n ih =>
      intro k s h
      have := ih (k + 1) _ (cur_step e hq _ hm sc hf s k h)
      simpa [List.replicate_succ, run, Nat.add_assoc, Nat.add_comm 1 n] using this
  have h0 : CurInv e (limit e m) (init m c) 0 := ⟨rfl, rfl, initRow m, rfl, rfl, rfl⟩
  obtain ⟨h1, h2, r, h3, h4, _⟩ := gen n 0 _ h0
  exact ⟨by simpa using h1, h2, r, h3, h4⟩

/-- the bound of `retry_bounded`, instantiated for the code as found with the default limit 10, is false:
    11 deliveries execute the task 11 times (the harness replays exactly this against the engine) -/
theorem retry_bounded_fails_current :
    ¬ (∀ ops : List Op, (run .current ⟨10, false⟩ ⟨[], .failT []⟩ (init 10 []) ops).execs ≤ limit ⟨10, false⟩ 10) := by
  intro h
  have := h (List.replicate 11 .handle)
  revert this
  decide

/-! ### the repaired code: bounded for every schedule -/

/-- **Bounded retries (repaired code).** For every limit, every queue limit, every schedule of
    deliveries (`handle`) and processor-level redeliveries (`drop`), and every task that fails
    transiently on every execution (with arbitrary context updates): the task is executed at most
    `max_attempts` times. -/
theorem retry_bounded (e : Env) (m : Nat) (sc : Script) (hf : AlwaysFails sc) (c : Ctx) (ops : List Op) :
    (run .fixed e sc (init m c) ops).execs ≤ limit e m := by
  have gen : ∀ (ops : List Op) (s : State), FixInv e (limit e m) s →
      FixInv e (limit e m) (run .fixed e sc s ops) := by
    intro ops
    induction ops with
    | nil => intro s h; simpa [run] using h
    | cons op ops ih => intro s h; exact ih _ (fix_step e _ sc hf s op h)
  have h0 : FixInv e (limit e m) (init m c) := by
    refine ⟨Nat.zero_le _, ?_⟩
    intro r hr
    simp only [init, Option.some.injEq] at hr
    subst hr
    exact ⟨Nat.le_refl _, limit_pos e m, rfl⟩
  exact (gen ops _ h0).1

/-- **The limit is reached and is terminal (repaired code).** With the queue's own limit not below
    the message's, `n ≥ max_attempts` straight deliveries of an always-failing task execute it exactly
    `max_attempts` times, after which `CompleteTask(TERMINAL)` has been pushed (the task's terminal
    failure status) and no RunTask is left. -/
theorem retry_limit_reached (e : Env) (m : Nat) (hq : limit e m ≤ e.qmax) (sc : Script) (hf : AlwaysFails sc)
    (c : Ctx) (n : Nat) (hn : limit e m ≤ n) :
    let s := run .fixed e sc (init m c) (List.replicate n .handle)
    s.execs = limit e m ∧ s.done = some .terminal ∧ s.row = none := by
  have gen : ∀ (n k : Nat) (s : State), k < limit e m → FixAt e (limit e m) s k → limit e m ≤ k + n →
      Final (limit e m) (run .fixed e sc s (List.replicate n .handle)) := by
    intro n
    induction n with
    | zero => intro k s hk _ hle; omega
    | succ n ih =>
      intro k s hk h hle
      obtain ⟨hA, hB⟩ := fixAt_step e _ hq sc hf s k hk h
      simp only [List.replicate_succ, run]
      by_cases hlt : k + 1 < limit e m
      · exact ih (k + 1) _ hlt (hA hlt) (by omega)
      · exact final_stable _ e sc _ (hB hlt) _
  have h0 : FixAt e (limit e m) (init m c) 0 := ⟨rfl, rfl, initRow m, rfl, rfl, rfl⟩
  exact gen n 0 _ (limit_pos e m) h0 (by omega)

/-! ### saved progress -/

/-- **Progress is visible.** For every task (any mix of transient failures with updates, RUNNING
    answers with context, success, permanent failure), every schedule of deliveries and redeliveries,
    both code variants: execution number `i+1` sees `ctx ⊕ update_1 ⊕ … ⊕ update_i`. -/
theorem progress_visible (v : Variant) (e : Env) (m : Nat) (sc : Script) (c : Ctx) (ops : List Op) :
    let s := run v e sc (init m c) ops
    s.seen = (List.range s.execs).map (ctxAfter sc c) := by
  have gen : ∀ (ops : List Op) (s : State), CtxInv sc c s → CtxInv sc c (run v e sc s ops) := by
    intro ops
    induction ops with
    | nil => intro s h; simpa [run] using h
    | cons op ops ih => intro s h; exact ih _ (ctx_step v e sc c s op h)
  exact (gen ops _ ⟨rfl, fun _ => rfl⟩).1

/-- the same, element by element, with the fold spelled out -/
theorem progress_visible_nth (v : Variant) (e : Env) (m : Nat) (sc : Script) (c : Ctx) (ops : List Op) (i : Nat)
    (hi : i < (run v e sc (init m c) ops).execs) :
    (run v e sc (init m c) ops).seen[i]? =
      some (((List.range i).map (fun j => updOf (sc.at j))).foldl merge c) := by
  have h := progress_visible v e m sc c ops
  simp only at h
  rw [h, ← ctxAfter_eq_foldl]
  simp [hi]

/-- **A RUNNING answer keeps the saved context and stays scheduled** (one delivery, any state):
    the context is `ctx ⊕ result.context`, nothing is completed, and a RunTask row with the message's
    limit is queued again (with a fresh attempt count in the repaired code). -/
theorem poll_keeps_context (v : Variant) (e : Env) (sc : Script) (s : State) (r : Row) (u : Ctx)
    (hr : s.row = some r) (hq : r.attempts < e.qmax) (ha : sc.at s.execs = .running u) :
    let s' := (step v e sc s .handle).1
    s'.ctx = merge s.ctx u ∧ s'.done = s.done ∧ s'.execs = s.execs + 1 ∧
      ∃ r2, s'.row = some r2 ∧ r2.maxCol = (delivered e r).maxAttempts ∧ (v = .fixed → r2.attempts = 0) := by
  rw [step_handle _ _ _ _ r hr hq]
  simp only [handleMsg, ha]
  refine ⟨trivial, trivial, trivial, _, rfl, ?_, ?_⟩
  · cases v <;> rfl
  · intro hv
    subst hv
    rfl

/-- the repair does not bound polling: a task answering RUNNING is re-run as often as it is delivered -/
theorem polling_unbounded_fixed (e : Env) (hq : 0 < e.qmax) (m : Nat) (sc : Script) (hf : AlwaysRunning sc)
    (c : Ctx) (n : Nat) :
    let s := run .fixed e sc (init m c) (List.replicate n .handle)
    s.execs = n ∧ s.done = none ∧ ∃ r, s.row = some r ∧ r.attempts = 0 := by
  have gen : ∀ (n k : Nat) (s : State),
      (s.execs = k ∧ s.done = none ∧ ∃ r, s.row = some r ∧ r.attempts = 0) →
      let s' := run .fixed e sc s (List.replicate n .handle)
      s'.execs = k + n ∧ s'.done = none ∧ ∃ r, s'.row = some r ∧ r.attempts = 0 := by
    intro n
    induction n with
    | zero => intro k s h; simpa [run] using h
    | succ n ih =>
      intro k s h
      obtain ⟨hx, hd, r, hr, ha⟩ := h
      obtain ⟨u, hu⟩ := hf s.execs
      have := ih (k + 1) (step .fixed e sc s .handle).1 (by
        rw [step_handle _ _ _ _ r hr (by omega)]
        simp only [handleMsg, hu]
        exact ⟨by simp [hx], hd, _, rfl, rfl⟩)
      simpa [List.replicate_succ, run, Nat.add_assoc, Nat.add_comm 1 n] using this
  simpa using gen n 0 (init m c) ⟨rfl, rfl, initRow m, rfl, rfl⟩

/-! ### non-vacuity -/

-- an always-failing task exists, and the default configuration satisfies the hypotheses
example : AlwaysFails ⟨[], .failT [(1, 5)]⟩ := fun _ => ⟨[(1, 5)], by simp [Script.at]⟩
example : limit ⟨10, false⟩ 10 = 10 ∧ limit ⟨10, false⟩ 10 ≤ (⟨10, false⟩ : Env).qmax := by decide
-- the bound is tight: exactly 10 executions, then TERMINAL
example : (run .fixed ⟨10, false⟩ ⟨[], .failT [(1, 5)]⟩ (init 10 []) (List.replicate 12 .handle)).execs = 10 := by decide
example : (run .fixed ⟨10, false⟩ ⟨[], .failT [(1, 5)]⟩ (init 10 []) (List.replicate 12 .handle)).done = some .terminal := by decide
-- redeliveries use up budget: 3 drops + deliveries -> 7 executions
example : (run .fixed ⟨10, false⟩ ⟨[], .failT []⟩ (init 10 []) ([.drop, .drop, .drop] ++ List.replicate 12 .handle)).execs = 7 := by decide
-- progress: third execution sees both updates, later one wins per key
example : (run .fixed ⟨10, false⟩ ⟨[.failT [(1, 5)], .running [(1, 6), (2, 7)]], .succeed []⟩ (init 10 [(0, 1)])
    [.handle, .handle, .handle]).seen = [[(0, 1)], [(0, 1), (1, 5)], [(0, 1), (1, 6), (2, 7)]] := by decide

end Stab.Props.C14
