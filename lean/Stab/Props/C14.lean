/- Property theorems for C14 — to be filled in. -/
namespace Stab.Props.C14
end Stab.Props.C14
