/-
  C14 — Transient failures: bounded number of retries, saved progress is kept.

  Model: `Stab.Retry` (attempt counter of a RunTask followed through
  handle_exception → copy_with_attempts → push_message → poll_one → deserialize_message,
  plus the stage context written in the same commit as the retry / polling message, plus the rows a dead
  worker leaves behind after a committed delivery).

  `Variant.fixed` is the repository as it is (repairs of F1 and F12 included).  All property theorems are about it,
  for EVERY schedule of
      handle      deliver, run the handler, ack
      drop        deliver, the handler raises before committing / the worker dies: processor-level redelivery
      lose        deliver, the handler commits, the worker dies before the processor's mark and the ack
      redeliver k a row left behind by `lose` comes back: it is acknowledged without running the handler, because
                  every RunTask commit marks its source message (F12 repair; duplicate check: C09)
  The section "before the F1 repair" keeps, clearly apart, what was false of the old code (`Variant.legacy`).

  Vocabulary (defined in `Stab/Lemmas/C14.lean`, repeated here for the reader)
    `AlwaysFails sc   := ∀ n, ∃ u, sc.at n = .failT u`      the task raises TransientError on every execution
    `AlwaysRunning sc := ∀ n, ∃ u, sc.at n = .running u`    the task answers RUNNING on every execution
    `limit e          := if e.dfltMax = 0 then 10 else e.dfltMax`   what `message.max_attempts or 10` evaluates to:
                      the dataclass default (10), since neither payload field nor column is read back
    `updOf act`       the context update an execution hands to the engine
    `ctxAfter sc c n` `c ⊕ update_1 ⊕ … ⊕ update_n` (`ctxAfter_eq_foldl`: it is the left fold of `merge`)
-/
import Stab.Model.Retry
import Stab.Lemmas.C14

namespace Stab.Props.C14
open Stab Stab.Retry

/-! ### bounded retries -/

/-- **Bounded retries.** For every limit, every queue limit, every schedule of deliveries, processor-level
    redeliveries, lost acknowledgements and redeliveries of left-behind rows, and every task that fails
    transiently on every execution (with arbitrary context updates): the task is executed at most
    `max_attempts` times. (Since the F12 repair a redelivered, already re-queued RunTask is a duplicate-check
    no-op, so such schedules are covered without any side condition.) -/
theorem retry_bounded (e : Env) (sc : Script) (hf : AlwaysFails sc) (c : Ctx) (ops : List Op) :
    (run .fixed e sc (init e c) ops).execs ≤ limit e := by
  have gen : ∀ (ops : List Op) (s : State), FixInv (limit e) s → FixInv (limit e) (run .fixed e sc s ops) := by
    intro ops
    induction ops with
    | nil => intro s h; simpa [run] using h
    | cons op ops ih => intro s h; exact ih _ (fix_step e sc hf s op h)
  have h0 : FixInv (limit e) (init e c) := by
    refine ⟨Nat.zero_le _, ?_⟩
    intro r hr
    simp only [init, Option.some.injEq] at hr
    subst hr
    exact ⟨Nat.le_refl _, limit_pos e⟩
  exact (gen ops _ h0).1

/-- **The limit is reached and is terminal.** With the queue's own limit not below the message's,
    `n ≥ max_attempts` straight deliveries of an always-failing task execute it exactly `max_attempts` times,
    after which `CompleteTask(TERMINAL)` has been pushed (the task's terminal failure status) and no RunTask is
    left; nothing that happens afterwards changes that. -/
theorem retry_limit_reached (e : Env) (hq : limit e ≤ e.qmax) (sc : Script) (hf : AlwaysFails sc)
    (c : Ctx) (n : Nat) (hn : limit e ≤ n) (later : List Op) :
    let s := run .fixed e sc (run .fixed e sc (init e c) (List.replicate n .handle)) later
    s.execs = limit e ∧ s.done = some .terminal ∧ s.row = none := by
  have gen : ∀ (n k : Nat) (s : State), k < limit e → FixAt s k → limit e ≤ k + n →
      Final (limit e) (run .fixed e sc s (List.replicate n .handle)) := by
    intro n
    induction n with
    | zero => intro k s hk _ hle; omega
    | succ n ih =>
      intro k s hk h hle
      obtain ⟨hA, hB⟩ := fixAt_step e hq sc hf s k hk h
      simp only [List.replicate_succ, run]
      by_cases hlt : k + 1 < limit e
      · exact ih (k + 1) _ hlt (hA hlt) (by omega)
      · exact final_stable _ e sc _ (hB hlt) _
  have h0 : FixAt (init e c) 0 := ⟨rfl, rfl, initRow e, rfl, rfl⟩
  exact final_stable _ e sc _ (gen n 0 _ (limit_pos e) h0 (by omega)) later

/-! ### saved progress -/

/-- **Progress is visible.** For every task (any mix of transient failures with updates, RUNNING
    answers with context, success, permanent failure) and every schedule (including lost acknowledgements and
    redelivered left-behind rows): execution number `i+1` sees `ctx ⊕ update_1 ⊕ … ⊕ update_i` — in particular
    no execution ever sees a context that misses an update recorded before it, and none is repeated on stale state. -/
theorem progress_visible (v : Variant) (e : Env) (sc : Script) (c : Ctx) (ops : List Op) :
    let s := run v e sc (init e c) ops
    s.seen = (List.range s.execs).map (ctxAfter sc c) := by
  have gen : ∀ (ops : List Op) (s : State), CtxInv sc c s → CtxInv sc c (run v e sc s ops) := by
    intro ops
    induction ops with
    | nil => intro s h; simpa [run] using h
    | cons op ops ih => intro s h; exact ih _ (ctx_step v e sc c s op h)
  exact (gen ops _ ⟨rfl, fun _ => rfl⟩).1

/-- the same, element by element, with the fold spelled out -/
theorem progress_visible_nth (v : Variant) (e : Env) (sc : Script) (c : Ctx) (ops : List Op) (i : Nat)
    (hi : i < (run v e sc (init e c) ops).execs) :
    (run v e sc (init e c) ops).seen[i]? =
      some (((List.range i).map (fun j => updOf (sc.at j))).foldl merge c) := by
  have h := progress_visible v e sc c ops
  simp only at h
  rw [h, ← ctxAfter_eq_foldl]
  simp [hi]

/-- **A redelivered, already re-queued RunTask does nothing** (F12 repair): the row a dead worker left behind
    after a committed delivery is acknowledged without executing the task; executions, contexts seen, durable
    context, the live RunTask and the completion status are untouched. -/
theorem redelivery_of_requeued_is_noop (v : Variant) (e : Env) (sc : Script) (s : State) (k : Nat) :
    let s' := (step v e sc s (.redeliver k)).1
    s'.execs = s.execs ∧ s'.seen = s.seen ∧ s'.ctx = s.ctx ∧ s'.row = s.row ∧ s'.done = s.done := by
  obtain ⟨h1, h2, h3, h4, h5⟩ := redeliver_core e s k
  exact ⟨h3, h4, h2, h1, h5⟩

/-- **A RUNNING answer keeps the saved context and stays scheduled** (one delivery, any state):
    the context is `ctx ⊕ result.context`, nothing is completed, and a RunTask row with the message's
    limit and a fresh attempt count is queued again. -/
theorem poll_keeps_context (e : Env) (sc : Script) (s : State) (r : Row) (u : Ctx)
    (hr : s.row = some r) (hq : r.attempts < e.qmax) (ha : sc.at s.execs = .running u) :
    let s' := (step .fixed e sc s .handle).1
    s'.ctx = merge s.ctx u ∧ s'.done = s.done ∧ s'.execs = s.execs + 1 ∧
      ∃ r2, s'.row = some r2 ∧ r2.maxCol = (delivered e r).maxAttempts ∧ r2.attempts = 0 := by
  rw [step_handle _ _ _ _ r hr hq]
  simp only [handleMsg, ha]
  exact ⟨trivial, trivial, trivial, _, rfl, rfl, rfl⟩

/-- polling is not bounded by the retry limit: a task answering RUNNING is re-run as often as it is delivered -/
theorem polling_unbounded (e : Env) (hq : 0 < e.qmax) (sc : Script) (hf : AlwaysRunning sc)
    (c : Ctx) (n : Nat) :
    let s := run .fixed e sc (init e c) (List.replicate n .handle)
    s.execs = n ∧ s.done = none ∧ ∃ r, s.row = some r ∧ r.attempts = 0 := by
  have gen : ∀ (n k : Nat) (s : State),
      (s.execs = k ∧ s.done = none ∧ ∃ r, s.row = some r ∧ r.attempts = 0) →
      let s' := run .fixed e sc s (List.replicate n .handle)
      s'.execs = k + n ∧ s'.done = none ∧ ∃ r, s'.row = some r ∧ r.attempts = 0 := by
    intro n
    induction n with
    | zero => intro k s h; simpa [run] using h
    | succ n ih =>
      intro k s h
      obtain ⟨hx, hd, r, hr, ha⟩ := h
      obtain ⟨u, hu⟩ := hf s.execs
      have := ih (k + 1) (step .fixed e sc s .handle).1 (by
        rw [step_handle _ _ _ _ r hr (by omega)]
        simp only [handleMsg, hu]
        exact ⟨by simp [hx], hd, _, rfl, rfl⟩)
      simpa [List.replicate_succ, run, Nat.add_assoc, Nat.add_comm 1 n] using this
  simpa using gen n 0 (init e c) ⟨rfl, rfl, initRow e, rfl, rfl⟩

/-! ### before the F1 repair (`Variant.legacy`): kept as a record of finding F1, not a property of the code -/

/-- LEGACY (before commit "transient retries carry their attempt count through the queue"): whatever the limit
    (at least 3 — the default is 10), a task that always fails transiently was executed `n` times by `n`
    deliveries, for EVERY `n`, and was still scheduled for another retry. -/
theorem legacy_retry_unbounded (e : Env) (hq : 0 < e.qmax) (hm : 3 ≤ limit e)
    (sc : Script) (hf : AlwaysFails sc) (c : Ctx) (n : Nat) :
    let s := run .legacy e sc (init e c) (List.replicate n .handle)
    s.execs = n ∧ s.done = none ∧ ∃ r, s.row = some r ∧ r.attempts = 0 := by
  have gen : ∀ (n k : Nat) (s : State), LegacyInv s k →
      LegacyInv (run .legacy e sc s (List.replicate n .handle)) (k + n) := by
    intro n
    induction n with
    | zero => intro k s h; simpa [run] using h
    | succ n ih =>
      intro k s h
      have := ih (k + 1) _ (legacy_step e hq hm sc hf s k h)
      simpa [List.replicate_succ, run, Nat.add_assoc, Nat.add_comm 1 n] using this
  have h0 : LegacyInv (init e c) 0 := ⟨rfl, rfl, initRow e, rfl, rfl⟩
  obtain ⟨h1, h2, r, h3, h4⟩ := gen n 0 _ h0
  exact ⟨by simpa using h1, h2, r, h3, h4⟩

/-! ### non-vacuity -/

-- an always-failing task exists, and the default configuration satisfies the hypotheses
example : AlwaysFails ⟨[], .failT [(1, 5)]⟩ := fun _ => ⟨[(1, 5)], by simp [Script.at]⟩
example : limit ⟨10, 10⟩ = 10 ∧ limit ⟨10, 10⟩ ≤ (⟨10, 10⟩ : Env).qmax := by decide
-- the bound is tight: exactly 10 executions, then TERMINAL
example : (run .fixed ⟨10, 10⟩ ⟨[], .failT [(1, 5)]⟩ (init ⟨10, 10⟩ []) (List.replicate 12 .handle)).execs = 10 := by decide
example : (run .fixed ⟨10, 10⟩ ⟨[], .failT [(1, 5)]⟩ (init ⟨10, 10⟩ []) (List.replicate 12 .handle)).done = some .terminal := by decide
-- redeliveries use up budget: 3 drops + deliveries -> 7 executions
example : (run .fixed ⟨10, 10⟩ ⟨[], .failT []⟩ (init ⟨10, 10⟩ []) ([.drop, .drop, .drop] ++ List.replicate 12 .handle)).execs = 7 := by decide
-- lost acks and redelivered left-behind rows do not add executions
example : (run .fixed ⟨10, 10⟩ ⟨[], .failT []⟩ (init ⟨10, 10⟩ [])
    ([.lose, .redeliver 0, .lose, .lose, .redeliver 1, .redeliver 0] ++ List.replicate 12 .handle)).execs = 10 := by decide
-- the legacy code ran an 11th time with the default limit
example : (run .legacy ⟨10, 10⟩ ⟨[], .failT []⟩ (init ⟨10, 10⟩ []) (List.replicate 11 .handle)).execs = 11 := by decide
-- progress: third execution sees both updates, later one wins per key
example : (run .fixed ⟨10, 10⟩ ⟨[.failT [(1, 5)], .running [(1, 6), (2, 7)]], .succeed []⟩ (init ⟨10, 10⟩ [(0, 1)])
    [.handle, .lose, .redeliver 0, .handle]).seen = [[(0, 1)], [(0, 1), (1, 5)], [(0, 1), (1, 6), (2, 7)]] := by decide

end Stab.Props.C14
