/- Property theorems for C02 — to be filled in. -/
namespace Stab.Props.C02
end Stab.Props.C02
