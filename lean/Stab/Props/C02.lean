/- C02 — first engine facts; more below as they land. -/
import Stab.Lemmas.EngineBasic
namespace Stab.Props.C02
open Stab Stab.Engine
/-- RunTask executes the task only if the durable task status is RUNNING. -/
theorem run_requires_running (c : Cfg) (s : State) (id i t a : Nat)
    (h : (hRunTask c s id i t a).2 = true) : ((s.stage i).tasks.getD t default).status = .running := by
  unfold hRunTask at h
  apply Classical.byContradiction
  intro hne
  have : (((s.stage i).tasks.getD t default).status != Status.running) = true := by simpa using hne
  simp only [this, ↓reduceIte] at h
  exact absurd h (by decide)
end Stab.Props.C02
