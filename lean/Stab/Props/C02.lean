/-
  C02 — Redelivery and reordering never change the result or repeat finished work.

  Engine model facts that hold in ANY state, i.e. for every delivery order and every redelivery:
  the status guards and the processed-mark that make duplicates inert; and, along EVERY run of a jump-free
  workflow (any delivery order, redeliveries, crashes at any commit, sweeps, a second worker delivering messages
  while a task executes): a task whose result has been recorded keeps its status and is never executed again
  (`recorded_task_never_reexecuted`).  Outcome determinism over whole runs (final statuses equal the FIFO run's)
  is validated by the schedule differential, not proved (it needs the driver invariant G2, see DESIGN.md) - and it is
  FALSE for one workload shape, which `orsplit_skip_race_is_order_dependent` exhibits (finding F42).
-/
import Stab.Lemmas.EngineClaim
import Stab.Lemmas.EngineFrozen

namespace Stab.Props.C02
open Stab Stab.Engine

/-- RunTask executes the task only if the durable task status is RUNNING. -/
theorem run_requires_running (c : Cfg) (s : State) (id i t a : Nat)
    (h : (hRunTask c s id i t a).2 = true) : ((s.stage i).tasks.getD t default).status = .running := by
  unfold hRunTask at h
  split at h
  · cases h
  · rename_i hg
    unfold runTaskGuard at hg
    simp only [] at hg
    apply Classical.byContradiction
    intro hne
    simp only [List.getD_eq_getElem?_getD] at hne
    simp [hne] at hg

/-- **A message whose processed mark is durable is never handled again**: delivering it only removes the row; no
    stage, task or workflow row changes, nothing is pushed, no task runs. -/
theorem processed_message_is_only_acked (c : Cfg) (s : State) (id : Nat) (hp : s.processed.contains id = true) :
    step c s (.deliver id) = s ∨ step c s (.deliver id) = ackRow (claimRow s id) id := by
  simp only [step]
  split
  · exact Or.inl rfl
  · rename_i row0 hf
    have hid : row0.id = id := by
      have := List.find?_some hf
      simpa using this
    right
    subst hid
    have hp' : (claimRow s row0.id).processed.contains row0.id = true := by simpa using hp
    unfold deliverRow
    simp only [hp', ↓reduceIte]

theorem processResult_marks (c : Cfg) (st : StageSt) (id i t n : Nat) (oc : Outcome) :
    ∀ txn ∈ processResult c st id i t n oc, Eff.mark id ∈ txn := by
  unfold processResult
  cases oc <;> simp only [] <;> (repeat' split) <;> simp

/-- every commit of a RunTask that executed the task carries the processed mark of that RunTask message — the result
    commits always did, the polling / transient re-queue commits do since fix F12 — so a redelivery of that RunTask can
    never execute the task again (`processed_message_is_only_acked`) -/
theorem runTask_commit_carries_mark (c : Cfg) (s : State) (id i t a : Nat) :
    ∀ txn ∈ (hRunTask c s id i t a).1, Eff.mark id ∈ txn := by
  unfold hRunTask
  split
  · rename_i txns hg
    unfold runTaskGuard at hg
    simp only [] at hg
    (repeat' split at hg) <;> simp at hg <;> subst hg <;> simp
  · unfold runTaskCommit
    simp only []
    (repeat' split)
    all_goals first | exact processResult_marks _ _ _ _ _ _ _ | simp

/-- **Each stage is started at most once per loop iteration**: a stage leaves NOT_STARTED for RUNNING only through
    its own StartStage message handled in a READY state (any state, any other message: impossible); once RUNNING, a
    further StartStage finds `status ≠ NOT_STARTED` and writes nothing unless the stage is an unplanned zombie. -/
theorem started_only_by_own_startStage (c : Cfg) (s : State) (row : Row) (i : Nat) (e : Eff)
    (he : e ∈ (handle c s row).1.flatten) (hc : Claims s i e) : ∃ r, row.msg = .startStage i r :=
  let ⟨r, hr, _⟩ := only_startStage_claims c s row i e he hc
  ⟨r, hr⟩

theorem startStage_on_planned_running_stage_is_inert (c : Cfg) (s : State) (id i r : Nat)
    (hrun : (s.stage i).status = .running) (htasks : (s.stage i).tasks ≠ []) :
    ∀ txn ∈ hStartStage c s id i r, ∀ e ∈ txn, ∀ j new, e ≠ .setStage j new := by
  intro txn htxn e he j new
  unfold hStartStage hStartStageCore startIfReady at htxn
  simp only [] at htxn
  have hne : (s.stage i).tasks.isEmpty = false := by
    cases h : (s.stage i).tasks with
    | nil => exact absurd h htasks
    | cons _ _ => rfl
  (repeat' split at htxn) <;> simp_all

/-- CompleteTask / StartTask are guarded by the durable task status: a duplicate or stale one only marks itself -/
theorem completeTask_on_non_running_task_is_inert (c : Cfg) (s : State) (id i t : Nat) (st : Status)
    (h : ((s.stage i).tasks.getD t default).status ≠ .running) : hCompleteTask c s id i t st = [[.mark id]] := by
  simp only [List.getD_eq_getElem?_getD] at h
  simp [hCompleteTask, h]

theorem startTask_on_started_task_is_inert (c : Cfg) (s : State) (id i t : Nat)
    (h : ((s.stage i).tasks.getD t default).status ≠ .notStarted) : hStartTask c s id i t = [[.mark id]] := by
  simp only [List.getD_eq_getElem?_getD] at h
  simp [hStartTask, h]

/-- CompleteStage acts only on a RUNNING stage: on a completed, continuable one it writes and pushes nothing -/
theorem completeStage_on_finished_stage_is_inert (c : Cfg) (s : State) (id i : Nat)
    (h1 : (s.stage i).status ≠ .running) (h2 : (s.stage i).status ≠ .notStarted) (h3 : (s.stage i).status.isHalt = false) :
    hCompleteStage c s id i = [] := by
  simp [hCompleteStage, h1, h2, h3]

/-! ### run level: a recorded result is final and is never executed again -/

/-- **A task whose result has been recorded is never executed again, and keeps that result** — for every
    jump-free workflow, every history `ops1` after which the task's durable status is a completed one, and every
    continuation `ops2` (deliveries in any order, unacknowledged redeliveries, kills after any number of commits,
    recovery sweeps, cancels, signals, a second worker delivering messages while a task executes; any length):
    the number of executions of that task in the ledger and its status are the same after `ops1 ++ ops2` as after
    `ops1`.  (With jumps the statement is per loop iteration and is false across a re-arm by design; the
    stale-message hazards of jump loops are the known F4 family.) -/
theorem recorded_task_never_reexecuted (c : Cfg) (hc : NoJumpCfg c) (ops1 ops2 : List Op) (i t : Nat)
    (h : (taskStatus (run c ops1) i t).isComplete = true) :
    execsOf (run c (ops1 ++ ops2)).ledger i t = execsOf (run c ops1).ledger i t ∧
    taskStatus (run c (ops1 ++ ops2)) i t = taskStatus (run c ops1) i t := by
  have hrun : run c (ops1 ++ ops2) = ops2.foldl (step c) (run c ops1) := by simp [run, List.foldl_append]
  rw [hrun]
  have := foldl_frozen c hc ops2 (run c ops1) i t _ _ (run_good c hc ops1) h ⟨rfl, rfl⟩
  exact ⟨this.execs, this.status⟩

/-- the same for one more operation from any reachable state (the inductive step, stated for reference) -/
theorem recorded_task_frozen_step (c : Cfg) (hc : NoJumpCfg c) (ops : List Op) (op : Op) (i t : Nat)
    (h : (taskStatus (run c ops) i t).isComplete = true) :
    execsOf (step c (run c ops) op).ledger i t = execsOf (run c ops).ledger i t ∧
    taskStatus (step c (run c ops) op) i t = taskStatus (run c ops) i t := by
  have := step_frozen c hc (run c ops) op i t _ _ (run_good c hc ops) h ⟨rfl, rfl⟩
  exact ⟨this.execs, this.status⟩

-- non-vacuity: in the jump-free demo workflow the task of stage 0 is SUCCEEDED after six in-order deliveries, was
-- executed once, and redelivering its RunTask / CompleteTask rows or sweeping afterwards is covered by the theorem
/-! ### F41 (fixed): a jump leaves no task RUNNING or REDIRECT in any stage it writes

RunTask pushes `JumpToStage` and `CompleteTask(REDIRECT)` in one commit.  Whichever is handled first, once the jump has
been applied the jumping task is SUCCEEDED (TERMINAL for a refused jump, NOT_STARTED after a re-arm) - before the repair
a `CompleteTask(REDIRECT)` handled first left it REDIRECT for ever. -/

theorem resetForRetry_tasks (st : StageSt) : ∀ x ∈ (resetForRetry st).tasks, x.status = .notStarted := by
  intro x hx
  simp only [resetForRetry, List.mem_map] at hx
  obtain ⟨_, _, rfl⟩ := hx
  rfl

theorem closed_tasks (tasks : List TaskSt) (to : Status) (hto : to ≠ .running ∧ to ≠ .redirect) :
    ∀ x ∈ tasks.map (fun x => if x.status == .running || x.status == .redirect then { x with status := to } else x),
      x.status ≠ .running ∧ x.status ≠ .redirect := by
  intro x hx
  simp only [List.mem_map] at hx
  obtain ⟨y, _, rfl⟩ := hx
  split
  · exact hto
  · rename_i hn
    simp only [Bool.or_eq_true, beq_iff_eq, not_or] at hn
    exact hn

/-- every stage row written by `JumpToStage` (source, target, re-armed and skipped stages) has no RUNNING / REDIRECT task -/
theorem jump_writes_no_open_task (c : Cfg) (s : State) (id src tgt d : Nat) (st' : StageSt)
    (h : Eff.setStage d st' ∈ (hJumpToStage c s id src tgt).flatten) :
    ∀ x ∈ st'.tasks, x.status ≠ .running ∧ x.status ≠ .redirect := by
  have hreset : ∀ st : StageSt, ∀ x ∈ (resetForRetry st).tasks, x.status ≠ .running ∧ x.status ≠ .redirect := by
    intro st x hx; rw [resetForRetry_tasks st x hx]; simp
  unfold hJumpToStage at h
  simp only [] at h
  split at h
  · simp at h
  · split at h
    · simp only [List.flatten_cons, List.flatten_nil, List.append_nil, List.mem_cons, Eff.setStage.injEq, List.mem_nil_iff, or_false, reduceCtorEq] at h
      obtain ⟨_, rfl⟩ := h
      exact closed_tasks _ _ (by simp)
    · split at h
      · simp only [List.flatten_cons, List.flatten_nil, List.append_nil, List.mem_cons, Eff.setStage.injEq, List.mem_nil_iff, or_false, reduceCtorEq] at h
        obtain ⟨_, rfl⟩ := h
        exact closed_tasks _ _ (by simp)
      · simp only [List.flatten_cons, List.flatten_nil, List.append_nil, List.mem_append, List.mem_map, List.mem_cons,
          List.mem_nil_iff, or_false, reduceCtorEq, Eff.setStage.injEq] at h
        rcases h with (((h1 | h2) | h3) | h4) | h6
        · obtain ⟨a, _, _, rfl⟩ := h1
          exact hreset _
        · obtain ⟨a, _, _, rfl⟩ := h2
          intro x hx
          simp only [List.mem_map] at hx
          obtain ⟨_, _, rfl⟩ := hx
          simp
        · split at h3
          · simp at h3
          · split at h3
            · simp only [List.mem_cons, Eff.setStage.injEq, List.mem_nil_iff, or_false] at h3
              obtain ⟨_, rfl⟩ := h3
              exact hreset _
            · simp only [List.mem_cons, Eff.setStage.injEq, List.mem_nil_iff, or_false] at h3
              obtain ⟨_, rfl⟩ := h3
              exact closed_tasks _ _ (by simp)
        · obtain ⟨_, rfl⟩ := h4
          exact hreset _
        · obtain ⟨_, _, h⟩ := h6
          cases h

/-! ### The outcome clause is false for one workload shape: finding F42

An OR-split upstream decides to SKIP a stage that has a second upstream.  In order, `SkipStage(2)` is handled before the
second upstream's completion pushes `StartStage(2)`: the stage ends SKIPPED and its task never runs.  When `SkipStage(2)`
is delivered last, `StartStage(2)` finds every upstream complete and the task runs. -/

def splitStage : StageCfg :=
  { reqs := [], join := JoinType.and, threshold := 0, cont := false, failp := true, enabled := none, maxj := none,
    tasks := [[Outcome.succ]], split := [(1, true), (2, false)] }
def emptyStage : StageCfg :=
  { reqs := [0], join := JoinType.and, threshold := 0, cont := false, failp := true, enabled := none, maxj := none, tasks := [] }
def joinStage : StageCfg :=
  { reqs := [0, 1], join := JoinType.and, threshold := 0, cont := false, failp := true, enabled := none, maxj := none,
    tasks := [[Outcome.succ]] }
def orsplit : Cfg := { wfMaxj := none, stages := [splitStage, emptyStage, joinStage] }

def inOrder : List Op := (List.range 11).map (fun k => Op.deliver (k + 1))
def skipLate : List Op := ([1, 2, 3, 4, 5, 6, 7, 9, 10, 11, 12, 13, 14, 15, 8] : List Nat).map Op.deliver

theorem orsplit_skip_race_is_order_dependent :
    ((run orsplit inOrder).stages.map (·.status)) = [.succeeded, .succeeded, .skipped] ∧
    ((run orsplit skipLate).stages.map (·.status)) = [.succeeded, .succeeded, .succeeded] ∧
    (run orsplit inOrder).queue = [] ∧ (run orsplit skipLate).queue = [] ∧
    (run orsplit inOrder).ledger.length = 1 ∧ (run orsplit skipLate).ledger.length = 2 := by
  decide

def demoCfg : Cfg :=
  { wfMaxj := none,
    stages := [
      { reqs := [], join := JoinType.and, threshold := 0, cont := false, failp := true, enabled := none, maxj := none,
        tasks := [[Outcome.succ]] },
      { reqs := [0], join := JoinType.and, threshold := 0, cont := false, failp := true, enabled := none, maxj := none,
        tasks := [[Outcome.terminal]] }] }

def demoOps : List Op := [.deliver 1, .deliver 2, .deliver 3, .deliver 4, .deliver 5, .deliver 6]

example : (taskStatus (run demoCfg demoOps) 0 0).isComplete = true ∧ execsOf (run demoCfg demoOps).ledger 0 0 = 1 := by decide

example : NoJumpCfg demoCfg := by
  intro sc hsc script hs o ho t
  simp [demoCfg] at hsc
  rcases hsc with rfl | rfl <;> simp at hs <;> subst hs <;> simp at ho <;> subst ho <;> simp

end Stab.Props.C02
