/-
  C09 — A message whose handling committed is never handled again, even after restart.

  Model: `Stab.Dedup` (bloom filter with the real byte/bit arithmetic over an abstract hash-position
  function; `_handle_message` duplicate check for both settings of `dedup_trust_negative_cache`;
  `_hydrate_deduplicator`; restart / rotation / peer mark / retention cleanup).
  Generated: `Stab.Gen.TxnShapes` (which handler commits mark the source message).

  Helper lemmas: `Stab/Lemmas/C09.lean`; shared vocabulary over TxnShapes: `Stab/Lemmas/TxnShapes.lean`.

  Vocabulary used below (defined in Lemmas/C09):
    `WF b`              the bit array has `ceil(size/8)` bytes and `size > 0` (true of every constructed filter)
    `bfold pos b ops`   the filter after a list of filter ops (`mark`, `query`, `hyd`, `reset`, `fill`)
    `sinceReset ops`    the ids marked or hydrated since the last `reset` in `ops`
    `spares s op id`    the op does not delete the processed record of `id` in state `s`: a purge that does not name it,
                        or a retention sweep while the record is not older than the sweep's max age
    `Spared pos c s id ops`   `spares` holds for every op of `ops`, each evaluated in the state it meets
    `Committed pos c s id`    `id` is in processed_messages, the filter is well-formed, and — only when
                        `dedup_trust_negative_cache` is on — an authoritative filter tests positive for `id`
-/
import Stab.Model.Dedup
import Stab.Lemmas.C09
import Stab.Lemmas.TxnShapes

namespace Stab.Props.C09
open Stab Stab.Dedup

/-! ### the filter -/

/-- **No false negatives.** After ANY sequence of mark / hydrate / reset (and query) operations on a
    freshly constructed filter of any positive size, with ANY hash-position function, every id that was
    marked or hydrated since the last reset tests positive — through the real index arithmetic
    (`pos % size`, byte `// 8`, bit `% 8`, `|=`, `&`). -/
theorem bloom_no_false_negative (pos : Id → List Nat) (size : Nat) (hs : 0 < size) (ops : List BOp) (id : Id)
    (h : id ∈ sinceReset ops) : (bfold pos (Bloom.fresh size) ops).maybeSeen pos id = true := by
  have gen : ∀ (ops : List BOp) (b : Bloom) (acc : List Id), WF b → (∀ x ∈ acc, b.maybeSeen pos x = true) →
      WF (bfold pos b ops) ∧ ∀ x ∈ ops.foldl (fun acc op => match op with
          | .mark i => i :: acc | .hyd l => l ++ acc | .reset => [] | _ => acc) acc,
        (bfold pos b ops).maybeSeen pos x = true := by
    intro ops
    induction ops with
    | nil => intro b acc hw ha; exact ⟨hw, ha⟩
    | cons op ops ih =>
      intro b acc hw ha
      simp only [bfold, List.foldl_cons]
      cases op with
      | mark i =>
        apply ih _ _ (wf_mark pos b i hw)
        intro x hx
        rcases List.mem_cons.mp hx with h | h
        · subst h; exact mark_then_seen pos b x hw
        · exact mark_mono pos b i x (ha x h)
      | query i => exact ih _ _ hw ha
      | hyd l =>
        apply ih _ _ (wf_hydrate pos b l hw)
        intro x hx
        rcases List.mem_append.mp hx with h | h
        · exact hydrate_seen pos b l x hw h
        · exact hydrate_mono pos b l x (ha x h)
      | reset =>
        apply ih _ _ (wf_reset b hw)
        intro x hx; cases hx
      | fill => exact ih _ _ hw ha
  exact (gen ops _ [] (wf_fresh size hs) (by intro x hx; cases hx)).2 id h

/-- **`reset()` revokes authority** (and empties the filter's counter) — whatever the filter held. -/
theorem reset_revokes_authority (b : Bloom) : b.reset.auth = false ∧ b.reset.count = 0 := ⟨rfl, rfl⟩

/-- after a rotation the filter is authoritative exactly when the store's ids fitted its capacity -/
theorem rotate_authority (pos : Id → List Nat) (c : Cfg) (s : State) :
    (step pos c s .rotate).1.bloom.auth = decide (s.store.length ≤ c.cap) := by
  simp only [step, rotateBloom, hydrateFromStore]
  by_cases h : s.store.length > c.cap
  · have h2 : ¬ s.store.length ≤ c.cap := by omega
    simp only [h, if_true, h2, decide_false]; rfl
  · have h2 : s.store.length ≤ c.cap := by omega
    simp only [h, if_false, h2, decide_true]; rfl

/-- **Hydration grants authority only when complete.** `_hydrate_deduplicator` on a non-authoritative
    filter (fresh, or just reset): the result is authoritative iff the processed ids fit the capacity, and
    when it is authoritative EVERY processed id tests positive. -/
theorem hydrate_grants_authority_only_when_complete (pos : Id → List Nat) (cap : Nat) (st : List Id) (b : Bloom)
    (hw : WF b) (hna : b.auth = false) :
    ((hydrateFromStore pos cap st b).auth = true ↔ st.length ≤ cap) ∧
    ((hydrateFromStore pos cap st b).auth = true → ∀ id ∈ st, (hydrateFromStore pos cap st b).maybeSeen pos id = true) := by
  refine ⟨?_, fun ha id hid => hydrateFromStore_seen pos cap st b id hw hna hid ha⟩
  unfold hydrateFromStore
  by_cases h : st.length > cap
  · simp only [h, if_true, hna]
    constructor
    · intro x; cases x
    · intro x; omega
  · simp only [h, if_false]
    constructor
    · intro _; omega
    · intro _; rfl

/-! ### the processor -/

/-- **Once committed, never dispatched again** (the inductive core). From ANY state in which `id` is committed,
    through ANY sequence of deliveries of any messages with any handler outcome, restarts, rotations (forced, by
    fill, by age), peer marks, passing time, purges and retention sweeps that spare the record of `id`, with the
    option off or on: the handler is never invoked for `id` again, and `id` stays committed. -/
theorem committed_stays (pos : Id → List Nat) (c : Cfg) (hsz : 0 < c.size) (s : State) (id : Id) (ops : List Op)
    (h : Committed pos c s id) (hc : Spared pos c s id ops) :
    runCount (run pos c s ops) id = runCount s id ∧ Committed pos c (run pos c s ops) id := by
  induction ops generalizing s with
  | nil => exact ⟨rfl, h⟩
  | cons op ops ih =>
    obtain ⟨h1, h2⟩ := step_keeps pos c hsz s op id h hc.1
    obtain ⟨h3, h4⟩ := ih (step pos c s op).1 h2 hc.2
    exact ⟨by simp only [run]; rw [h3, h1], h4⟩

/-- what a delivery that committed (or was skipped because the record exists) establishes -/
theorem delivery_commits (pos : Id → List Nat) (c : Cfg) (hsz : 0 < c.size) (hmark : c.trust = true → c.markOnRaise = true)
    (s : State) (hw : WF s.bloom) (id : Id) (o : Outcome) (aged : Bool) (ho : o ≠ .raiseBefore) :
    Committed pos c (step pos c s (.handle id o aged)).1 id := by
  refine ⟨handled_is_committed pos c s id o aged ho, wf_step pos c hsz _ _ hw, ?_⟩
  intro ht ha
  have hfix := hmark ht
  rw [step_handle] at ha ⊢
  have hwa : WF (ageState s aged).bloom := age_wf _ aged hw
  cases hk : skips pos c (ageState s aged) id with
  | true =>
    -- skipped: the state is unchanged, and an authoritative trusted filter only skips on a positive
    rw [handleMsg_skip pos c _ id o hk] at ha ⊢
    unfold skips consultsStore at hk
    simp only [Bool.and_eq_true, Bool.or_eq_true] at hk
    rcases hk.1 with h | h
    · exact h
    · simp_all
  | false =>
    rw [handleMsg_run pos c _ id o hk]
    have hwr := wf_afterRotationCheck pos c _ hwa
    cases o with
    | raiseBefore => exact absurd rfl ho
    | commitRaise => simp only [onRaise, hfix, if_true]; exact mark_then_seen pos _ id hwr
    | commitReturn => exact mark_then_seen pos _ id hwr
    | plainReturn => exact mark_then_seen pos _ id hwr

/-- **A committed message is never handled again** — the code as it is, option off (default) or on.
    After ANY history `ops1`, a delivery of `id` whose handling committed the processed record — in the handler's
    own commit (`commitReturn`, `commitRaise`: even when the handler raises afterwards) or through the processor's
    mark (`plainReturn`) — is never followed by another handler invocation for `id`, whatever happens later
    (`ops2`: redeliveries at any point, restarts, rotations, other workers' marks, retention sweeps), as long as
    the record itself is spared: no purge names it and it is not older than max_age when a sweep runs.
    (`hmark`: with the option on this needs the F7 repair, which is in the code: `markOnRaise = true`.) -/
theorem committed_never_rerun (pos : Id → List Nat) (c : Cfg) (hsz : 0 < c.size) (hmark : c.trust = true → c.markOnRaise = true)
    (ops1 : List Op) (id : Id) (o : Outcome) (aged : Bool) (ho : o ≠ .raiseBefore) (ops2 : List Op) :
    let s1 := (step pos c (run pos c (init c) ops1) (.handle id o aged)).1
    Spared pos c s1 id ops2 → runCount (run pos c s1 ops2) id = runCount s1 id := by
  intro s1 hc
  have hw1 : WF (run pos c (init c) ops1).bloom := wf_run pos c hsz _ ops1 (wf_fresh c.size hsz)
  exact (committed_stays pos c hsz s1 id ops2 (delivery_commits pos c hsz hmark _ hw1 id o aged ho) hc).1

/-- the same for a record written by another worker, with the option off: a message another worker marked
    processed is never handled here -/
theorem peer_mark_respected (pos : Id → List Nat) (c : Cfg) (hsz : 0 < c.size) (ht : c.trust = false)
    (ops1 : List Op) (id : Id) (ops2 : List Op) :
    let s1 := (step pos c (run pos c (init c) ops1) (.peerMarks id)).1
    Spared pos c s1 id ops2 → runCount (run pos c s1 ops2) id = runCount s1 id := by
  intro s1 hc
  have hw1 : WF (run pos c (init c) ops1).bloom := wf_run pos c hsz _ ops1 (wf_fresh c.size hsz)
  have hcom : Committed pos c s1 id :=
    ⟨by simp [s1, step, mem_storeAdd], wf_step pos c hsz _ _ hw1, fun h => by rw [ht] at h; cases h⟩
  exact (committed_stays pos c hsz s1 id ops2 hcom hc).1

/-! ### the retention sweep (repair of F32: timestamps are compared as datetimes) -/

/-- the sweep deletes ONLY records strictly older than its max age -/
theorem sweep_deletes_only_old (pos : Id → List Nat) (c : Cfg) (s : State) (maxAge : Nat) (id : Id)
    (hm : id ∈ s.store) (hgone : id ∉ (step pos c s (.sweep maxAge)).1.store) :
    ∃ t, s.stamp.lookup id = some t ∧ t + maxAge < s.clock := by
  simp only [step, List.mem_filter, hm, true_and] at hgone
  have hexp : expired s maxAge id = true := by
    cases h : expired s maxAge id with
    | true => rfl
    | false => simp [h] at hgone
  unfold expired at hexp
  cases hl : s.stamp.lookup id with
  | none => simp [hl] at hexp
  | some t => exact ⟨t, rfl, by simpa [hl] using hexp⟩

/-- a record that is not older than max age is spared by the sweep -/
theorem sweep_spares_young (s : State) (maxAge : Nat) (id : Id) (t : Nat)
    (hl : s.stamp.lookup id = some t) (hy : s.clock ≤ t + maxAge) : spares s (.sweep maxAge) id = true := by
  have : ¬ t + maxAge < s.clock := by omega
  simp [spares, expired, hl, this]

/-- a record keeps its timestamp while it exists: other messages' records, re-marks (INSERT OR IGNORE), restarts and
    rotations do not touch it — so "older than max_age" is measured from the commit -/
theorem stamp_stable (pos : Id → List Nat) (c : Cfg) (s : State) (op : Op) (id : Id) (hm : id ∈ s.store) :
    (step pos c s op).1.stamp.lookup id = s.stamp.lookup id := by
  have hc : s.store.contains id = true := by simpa using hm
  have hadd : ∀ i, (stampAdd s i).lookup id = s.stamp.lookup id := by
    intro i
    unfold stampAdd
    by_cases hi : s.store.contains i = true
    · rw [if_pos hi]
    · rw [if_neg hi]
      have hne : (id == i) = false := by
        cases h : (id == i) with
        | false => rfl
        | true => have : id = i := by simpa using h
                  subst this; exact absurd hc hi
      simp only [List.lookup_cons, hne]
  cases op with
  | handle i o aged =>
    rw [step_handle]
    have hst : (ageState s aged).stamp = s.stamp := by unfold ageState; split <;> rfl
    have hstore : (ageState s aged).store = s.store := age_store s aged
    have hclock : (ageState s aged).clock = s.clock := by unfold ageState; split <;> rfl
    have hadd' : (stampAdd (ageState s aged) i).lookup id = s.stamp.lookup id := by
      have := hadd i
      unfold stampAdd at this ⊢
      rw [hstore, hst, hclock]; exact this
    cases hk : skips pos c (ageState s aged) i with
    | true => rw [handleMsg_skip pos c _ i o hk, hst]
    | false =>
      rw [handleMsg_run pos c _ i o hk]
      cases o with
      | raiseBefore => exact congrArg (fun l => List.lookup id l) hst
      | commitRaise => exact hadd'
      | commitReturn => exact hadd'
      | plainReturn => exact hadd'
  | restart => rfl
  | rotate => rfl
  | peerMarks i => exact hadd i
  | cleanup ids => rfl
  | tick n => rfl
  | sweep h => rfl

/-! ### where the statement stops -/

/-- the concrete setting of the witnesses: 64 bits, capacity 10, each id has one hash position -/
def wpos : Id → List Nat := fun i => [i]

/-- option on: a mark written by ANOTHER worker is not seen by this process's filter — outside the option's
    documented contract ("only safe when this process is the only writer"), recorded as an assumption -/
theorem peer_mark_reruns_when_trusting :
    let c : Cfg := { size := 64, cap := 10, trust := true }
    let s1 := run wpos c (init c) [.restart, .peerMarks 1]
    (1 ∈ s1.store) ∧ runCount (run wpos c s1 [.handle 1 .commitReturn false]) 1 = 1 := by
  decide

/-- the `Spared` hypothesis is needed: once the record is older than max_age a sweep deletes it and the message
    is open again (the operator's documented trade-off) -/
theorem sweep_of_old_record_reopens :
    let c : Cfg := { size := 64, cap := 10, trust := false }
    runCount (run wpos c (init c) [.restart, .handle 1 .commitReturn false, .tick 5, .sweep 4, .handle 1 .commitReturn false]) 1 = 2
    ∧ runCount (run wpos c (init c) [.restart, .handle 1 .commitReturn false, .tick 4, .sweep 4, .handle 1 .commitReturn false]) 1 = 1 := by
  decide

/-- LEGACY (before the repair of F7, `markOnRaise = false`; not the code any more): option on, filter hydrated —
    the handler committed its effects and the processed mark, then raised; the message was redelivered and the
    handler RAN AGAIN although the mark was durable. -/
theorem legacy_commit_then_raise_reran_when_trusting :
    let c : Cfg := { size := 64, cap := 10, trust := true, markOnRaise := false }
    let s1 := run wpos c (init c) [.restart, .handle 1 .commitRaise false]
    (1 ∈ s1.store) ∧ runCount s1 1 = 1 ∧ runCount (run wpos c s1 [.handle 1 .commitReturn false]) 1 = 2 := by
  decide

/-! ### which handler commits carry the processed mark (generated from the handlers' source) -/

open Stab.Gen.TxnShapes Stab.TxnShapes in
/-- `TransactionHelper.execute_atomic*` still is "store_stage, mark_message_processed, push_message in one block" -/
theorem txn_helper_shape : helperShapeOk = true := by decide

open Stab.Gen.TxnShapes Stab.TxnShapes in
/-- **The commits that store stage/workflow state WITHOUT marking the source message processed are exactly
    these (reviewed).** Every other state-storing commit of every handler carries `mark_message_processed`
    (or `source_message=`) in the same transaction, so "effects committed" implies "processed record committed".
    For the listed ones the record is written by the processor after the handler returns; a crash in between
    re-runs the handler on redelivery (they rely on their own status guards):
      complete_stage 6,7,9,10   synthetic-stage / failure propagation paths of CompleteStage
      start_stage on_stage 1, do_mark_error   wait-retry and planning-error paths
      start_stage _start_if_ready 5   the claim commit, first of StartStage's two commits
      start_waiting_workflows 0
    (the transient-retry and polling re-push of RunTask left this list with the repair of F12) -/
theorem processed_mark_in_handler_commit :
    ((entries.filter (fun e => isCommit e && storesState e && !marks e)).map key) =
    [ ("handlers/complete_stage/handler.py", "CompleteStageHandler._handle_with_retry.on_stage", 6),
      ("handlers/complete_stage/handler.py", "CompleteStageHandler._handle_with_retry.on_stage", 7),
      ("handlers/complete_stage/handler.py", "CompleteStageHandler._handle_with_retry.on_stage", 9),
      ("handlers/complete_stage/handler.py", "CompleteStageHandler._handle_with_retry.on_stage", 10),
      ("handlers/start_stage/handler.py", "StartStageHandler.handle.on_stage", 1),
      ("handlers/start_stage/handler.py", "StartStageHandler.handle.on_stage.do_mark_error", 0),
      ("handlers/start_stage/handler.py", "StartStageHandler._start_if_ready", 5),
      ("handlers/start_waiting_workflows.py", "StartWaitingWorkflowsHandler._handle_with_retry", 0) ] := by
  decide

open Stab.Gen.TxnShapes Stab.TxnShapes in
/-- commits that only enqueue messages (no state, no mark): `start_next`, and the transient retry when the stage
    has vanished -/
theorem push_only_commits :
    ((entries.filter (fun e => isCommit e && !storesState e && pushes e && !marks e)).map key) =
    [ ("handlers/base.py", "StabilizeHandler.start_next", 1),
      ("handlers/run_task/error.py", "_handle_transient_retry.do_update_context", 0) ] := by
  decide

open Stab.Gen.TxnShapes Stab.TxnShapes in
/-- `queue.push` calls outside any transaction block: after such a push fails, a handler that already committed
    its mark raises — the `commitRaise` outcome of the model is reachable in the real handlers -/
theorem pushes_outside_transactions :
    ((entries.filter (fun e => e.kind == "push_outside")).map key) =
    [ ("handlers/base.py", "StabilizeHandler.start_next", 0),
      ("handlers/base.py", "StabilizeHandler.start_next", 2),
      ("handlers/base.py", "StabilizeHandler.start_next", 3),
      ("handlers/complete_workflow.py", "CompleteWorkflowHandler._determine_final_status", 0),
      ("handlers/continue_parent_stage.py", "ContinueParentStageHandler._handle_before_phase", 0),
      ("handlers/continue_parent_stage.py", "ContinueParentStageHandler._handle_after_phase", 0),
      ("handlers/start_stage/handler.py", "StartStageHandler.handle.on_stage", 0),
      ("handlers/start_stage/handler.py", "StartStageHandler.handle.on_stage", 2),
      ("handlers/start_stage/handler.py", "StartStageHandler._start_if_ready", 2),
      ("handlers/start_stage/handler.py", "StartStageHandler._start_if_ready", 6),
      ("handlers/start_stage/handler.py", "StartStageHandler._start_if_ready", 8),
      ("handlers/start_stage/orchestration.py", "StartStageOrchestrationMixin._cancel_deferred_choice_siblings", 0),
      ("handlers/start_workflow.py", "StartWorkflowHandler._handle_with_retry.on_execution", 0),
      ("handlers/start_workflow.py", "StartWorkflowHandler._handle_with_retry.on_execution", 1) ] := by
  decide

/-! ### non-vacuity -/

-- a committed state exists and the hypotheses of the theorems are satisfiable (option on, the code as it is):
-- one invocation although the handler raised after its commit and the message came back several times
example : let c : Cfg := { size := 64, cap := 10, trust := true }
    runCount (run wpos c (init c) [.restart, .handle 1 .commitRaise false, .handle 1 .commitReturn false,
      .rotate, .handle 1 .plainReturn true, .restart, .tick 3, .sweep 4, .handle 1 .commitRaise false]) 1 = 1 := by decide
example : let c : Cfg := { size := 64, cap := 10, trust := true }
    Spared wpos c (run wpos c (init c) [.restart, .handle 1 .commitRaise false]) 1
      [.handle 1 .commitReturn false, .tick 3, .sweep 4, .cleanup [2], .handle 1 .commitRaise false] := by
  decide
-- a filter op sequence with a reset in the middle: only the later ids are claimed
example : sinceReset [.mark 1, .hyd [2, 3], .reset, .mark 4] = [4] := by decide
-- rotation with more processed ids than the capacity leaves the filter advisory
example : let c : Cfg := { size := 64, cap := 1, trust := true }
    (run wpos c (init c) [.restart, .handle 1 .commitReturn false, .handle 2 .commitReturn false, .rotate]).bloom.auth = false := by decide

end Stab.Props.C09
