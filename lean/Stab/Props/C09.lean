/- Property theorems for C09 — to be filled in. -/
namespace Stab.Props.C09
end Stab.Props.C09
