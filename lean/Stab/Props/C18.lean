/- Property theorems for C18 — to be filled in. -/
namespace Stab.Props.C18
end Stab.Props.C18
