/-
  C18 — Persistent signals are never lost; a suspended stage resumes once per signal.

  One-step theorems about the engine model (`hSignalStage`, the suspend branch of `processResult`), valid in ANY
  state — i.e. wherever in the schedule the signal arrives — plus "a SUSPENDED stage stays SUSPENDED under every
  message except its own signal, its own cancel and a jump re-arm".  The run-level count "resumes = effective
  signals" is checked by the harness monitor on every schedule (harness/engine_suites.py `mon_c18`).

  Second part (section `race`): the two-worker race signal handler vs. suspending task result INSIDE the handlers, at
  read / compare-and-swap granularity (model `Stab.SignalRace`): for every window, both directions, any version and
  mailbox content a persistent signal is never lost and never applied twice; a transient one is delivered or dropped,
  never buffered; and the variant whose CAS guards a re-read instead of the read the decision was taken on DOES lose it.
  Same for the third direction, signal vs. StartStage (claim commit / plan commit / plan-conflict merge): the mailbox ends
  with the old entries plus the new signal exactly once and the stage is planned exactly once; the variant whose merge lets
  the stale in-memory mailbox win loses the signal in the window between the claim commit and the plan commit.
-/
import Stab.Lemmas.EngineGood
import Stab.Lemmas.SignalRace

namespace Stab.Props.C18
open Stab Stab.Engine

/-- A signal handled while the stage is SUSPENDED resumes it: stage and the suspended task go back to RUNNING and
    exactly one RunTask is pushed, all in one commit together with the processed mark. -/
theorem signal_resumes_suspended (c : Cfg) (s : State) (id i t : Nat) (p : Bool)
    (hs : (s.stage i).status = .suspended)
    (ht : (List.range (s.stage i).tasks.length).find? (fun t => ((s.stage i).tasks.getD t default).status == .suspended) = some t) :
    hSignalStage c s id i p =
      [[.setStage i { s.stage i with status := .running,
                                     tasks := setTask (s.stage i).tasks t (fun x => { x with status := .running }) },
        .mark id, .push (.runTask i t)]] := by
  simp only [List.getD_eq_getElem?_getD] at ht
  simp [hSignalStage, hs, ht]

/-- A PERSISTENT signal handled while the stage is not SUSPENDED (not started yet, running, …) is buffered:
    the mailbox grows by one, nothing else changes. -/
theorem persistent_signal_is_buffered (c : Cfg) (s : State) (id i : Nat) (hs : (s.stage i).status ≠ .suspended) :
    hSignalStage c s id i true = [[.setStage i { s.stage i with buffered := (s.stage i).buffered + 1 }, .mark id]] := by
  simp [hSignalStage, hs]

/-- A TRANSIENT signal handled while the stage is not SUSPENDED has no effect (only the processed mark). -/
theorem transient_signal_is_dropped (c : Cfg) (s : State) (id i : Nat) (hs : (s.stage i).status ≠ .suspended) :
    hSignalStage c s id i false = [[.mark id]] := by
  simp [hSignalStage, hs]

/-- When the task asks to suspend and a signal is buffered, exactly ONE buffered signal is consumed, the stage
    stays RUNNING and the task is re-run once — in the same commit (no lost-signal window). -/
theorem suspend_consumes_one_buffered_signal (c : Cfg) (st : StageSt) (id i t n : Nat)
    (hs : st.status = .running) (ht : (st.tasks.getD t default).status = .running) (hb : 0 < st.buffered) :
    processResult c st id i t n .suspend =
      [[.setStage i { st with buffered := st.buffered - 1, status := .running,
                              tasks := setTask st.tasks t (fun x => { x with status := .running }) },
        .mark id, .push (.runTask i t)]] := by
  have : ¬ (st.buffered = 0) := Nat.ne_of_gt hb
  simp only [List.getD_eq_getElem?_getD] at ht
  simp [processResult, hs, ht, hb]

/-- … and with an empty mailbox the stage and the task become SUSPENDED durably and NO continuation is pushed. -/
theorem suspend_without_signal_waits (c : Cfg) (st : StageSt) (id i t n : Nat)
    (hs : st.status = .running) (ht : (st.tasks.getD t default).status = .running) (hb : st.buffered = 0) :
    processResult c st id i t n .suspend =
      [[.setStage i { st with status := .suspended, tasks := setTask st.tasks t (fun x => { x with status := .suspended }) },
        .mark id]] := by
  simp only [List.getD_eq_getElem?_getD] at ht
  simp [processResult, hs, ht, hb]

/-- the only effects of a handler that could move stage `i` away from SUSPENDED -/
def KeepsSuspended (s : State) (i : Nat) (e : Eff) : Prop :=
  ∀ new, e = .setStage i new → (s.stage i).status = .suspended → new.status = .suspended

/-- **A SUSPENDED stage stays SUSPENDED**: no message other than its own SignalStage, its own CancelStage or a
    JumpToStage (re-arm) writes another status to it — whatever else is delivered, in whatever order. -/
theorem suspended_stays_suspended (c : Cfg) (s : State) (row : Row) (i : Nat)
    (h1 : ∀ p, row.msg ≠ .signalStage i p) (h2 : row.msg ≠ .cancelStage i) (h3 : ∀ a b, row.msg ≠ .jumpToStage a b) :
    ∀ e ∈ (handle c s row).1.flatten, KeepsSuspended s i e := by
  intro e he new hnew hsusp
  subst hnew
  unfold handle at he
  cases hm : row.msg with
  | startWorkflow =>
    simp only [hm, hStartWorkflow] at he
    (repeat' split at he) <;> simp at he
  | startStage j r =>
    simp only [hm, hStartStage, hStartStageCore, startIfReady] at he
    (repeat' split at he) <;> simp at he
    all_goals (try (rcases he with he | he))
    all_goals (try (obtain ⟨rfl, rfl⟩ := he))
    all_goals simp_all
  | startTask j t =>
    simp only [hm, hStartTask] at he
    (repeat' split at he) <;> simp at he
    obtain ⟨rfl, rfl⟩ := he
    exact hsusp
  | runTask j t =>
    simp only [hm, hRunTask] at he
    split at he
    · rename_i txns hg
      unfold runTaskGuard at hg
      simp only [] at hg
      (repeat' split at hg) <;> simp at hg <;> subst hg <;> simp at he
    · unfold runTaskCommit processResult at he
      simp only [] at he
      (repeat' split at he) <;> simp at he
      all_goals (try (obtain ⟨rfl, rfl⟩ := he))
      all_goals simp_all
  | completeTask j t st =>
    simp only [hm, hCompleteTask] at he
    (repeat' split at he) <;> simp at he
    all_goals (obtain ⟨rfl, rfl⟩ := he; exact hsusp)
  | completeStage j =>
    simp only [hm, hCompleteStage] at he
    (repeat' split at he) <;> simp at he
    all_goals (try (obtain ⟨rfl, rfl⟩ := he))
    all_goals (try simp_all)
    all_goals (
      rcases he with ⟨l, hl, hmem⟩ | ⟨rfl, _⟩
      · have := joinTracking_preserving c s j (.setStage i new) (List.mem_flatten.mpr ⟨l, hl, hmem⟩)
        exact this.1.trans hsusp
      · simp_all)
  | skipStage j =>
    simp only [hm, hSkipStage] at he
    (repeat' split at he) <;> simp at he
    all_goals (try (rcases he with he | he))
    all_goals (try (obtain ⟨rfl, rfl⟩ := he))
    all_goals simp_all
  | cancelStage j =>
    simp only [hm, hCancelStage] at he
    (repeat' split at he) <;> simp at he
    obtain ⟨rfl, rfl⟩ := he
    exact absurd hm h2
  | completeWorkflow r =>
    simp only [hm, hCompleteWorkflow] at he
    (repeat' split at he) <;> simp at he
  | cancelWorkflow =>
    simp only [hm, hCancelWorkflow] at he
    (repeat' split at he) <;> simp at he
  | jumpToStage a b => exact absurd hm (h3 a b)
  | signalStage j p =>
    simp only [hm, hSignalStage] at he
    (repeat' split at he) <;> simp at he
    all_goals (obtain ⟨rfl, rfl⟩ := he)
    all_goals (first | exact absurd hm (h1 p) | simp_all)

/-! ## The signal-vs-suspend race at read / CAS granularity (model `Stab.SignalRace`)

  A schedule = which worker is A (`Dir`), after how many micro-steps `k` of A the other worker B runs to completion
  (`k = 0`: B first; `k = 1`: between A's read and its next access; …; large `k`: A first), persistent / transient,
  initial stage version `ver`, initial mailbox length `b0`, and `K` = how many of its first executions the task
  answers with "suspend".  All of these are universally quantified below; only the finite part (direction, the
  window as `0 | 1 | 2 | ≥ 3`, `K = 0 | ≥ 1`, `b0 = 0 | ≥ 1`) is split into cases. -/
section race
open Stab.SignalRace

/-- evaluates `race` once the finite part of the schedule has been split into cases -/
local macro "race_eval" : tactic =>
  `(tactic| simp [race, iter_bound, iter_succ, iter_zero, iter_sig_done, iter_run_done, sigInit, maxRetries, innerRuns,
      sigStep, runStep, SignalRace.cas, load, init, sigConflict, runConflict])

/-- **A persistent signal racing with the suspending result is never lost and applied exactly once.**
    Whatever the window and the direction: when both workers are done the stage is RUNNING with exactly one RunTask
    queued, the task ran once, exactly one signal was applied (delivered to the SUSPENDED stage, or taken from the
    mailbox by the suspending result), the mailbox holds the `b0` others, nothing was dropped, and exactly two writes
    went through the version check. -/
theorem race_persistent_signal_never_lost (K ver b0 k : Nat) (dir : Dir) (hK : 1 ≤ K) :
    let r := race .cas K ⟨dir, k, true⟩ (init ver b0)
    r.stage.status = .running ∧ r.stage.queued = 1 ∧ r.stage.execs = 1 ∧
    r.stage.buffered = b0 ∧ r.stage.resumed + r.stage.consumed = 1 ∧ r.stage.dropped = 0 ∧ r.stage.version = ver + 2 := by
  obtain ⟨K, rfl⟩ : ∃ K', K = K' + 1 := ⟨K - 1, by omega⟩
  cases dir <;> rcases k with _ | _ | _ | k <;> rcases b0 with _ | b0 <;> race_eval

example : (race .cas 1 ⟨.sigFirst, 1, true⟩ (init 3 0)).sig = .done .delivered 1 := by decide   -- CAS missed once, reloaded, delivered
example : (race .cas 1 ⟨.runFirst, 2, true⟩ (init 3 0)).run = .done .consumed innerRuns := by decide   -- the suspend write missed, reloaded, consumed
example : (race .cas 1 ⟨.sigFirst, 2, true⟩ (init 3 1)).stage.buffered = 1 := by decide

/-- **Never "SUSPENDED with mail", never applied twice** — persistent or transient, suspending task or not: a stage
    left SUSPENDED has an empty mailbox (and nothing queued); at most one signal was applied; every applied signal
    pushed exactly one RunTask; the task ran exactly once. -/
theorem race_never_suspended_with_mail (K ver b0 k : Nat) (dir : Dir) (p : Bool) :
    let r := race .cas K ⟨dir, k, p⟩ (init ver b0)
    (r.stage.status = .suspended → r.stage.buffered = 0 ∧ r.stage.queued = 0) ∧
    r.stage.resumed + r.stage.consumed ≤ 1 ∧ r.stage.queued = r.stage.resumed + r.stage.consumed ∧ r.stage.execs = 1 := by
  cases dir <;> cases p <;> rcases k with _ | _ | _ | k <;> rcases K with _ | K <;> rcases b0 with _ | b0 <;> race_eval

example : (race .cas 1 ⟨.sigFirst, 1, false⟩ (init 0 0)).stage.status = .suspended := by decide   -- the premise is reachable

/-- **Conservation**: each of the `b0 + 1` signals is in exactly one place (mailbox, consumed, delivered, dropped);
    a persistent signal is never dropped; a transient signal is never buffered (it is delivered or dropped). -/
theorem race_signal_conserved (K ver b0 k : Nat) (dir : Dir) (p : Bool) :
    let r := race .cas K ⟨dir, k, p⟩ (init ver b0)
    r.stage.buffered + r.stage.consumed + r.stage.resumed + r.stage.dropped = b0 + 1 ∧
    (p = true → r.stage.dropped = 0) ∧
    (p = false → r.stage.buffered + r.stage.consumed = b0 ∧ r.stage.resumed + r.stage.dropped = 1) := by
  cases dir <;> cases p <;> rcases k with _ | _ | _ | k <;> rcases K with _ | K <;> rcases b0 with _ | b0 <;> race_eval
  all_goals omega

/-- If the task never suspends, the persistent signal sits in the mailbox (nothing applied, nothing dropped). -/
theorem race_persistent_signal_buffered_if_task_never_suspends (ver b0 k : Nat) (dir : Dir) :
    let r := race .cas 0 ⟨dir, k, true⟩ (init ver b0)
    r.stage.status = .finished ∧ r.stage.buffered = b0 + 1 ∧ r.stage.resumed = 0 ∧ r.stage.consumed = 0 ∧
    r.stage.queued = 0 ∧ r.stage.dropped = 0 := by
  cases dir <;> rcases k with _ | _ | _ | k <;> race_eval

/-- **Transient signal** (empty mailbox, suspending task): it resumes the stage exactly when the signal worker's read
    comes after the suspend commit — RunTask worker entirely first (`sigFirst, k = 0`) or the signal worker injected
    after the RunTask worker's CAS (`runFirst, 3 ≤ k`); in every other window it is dropped and the stage stays
    SUSPENDED.  It is never buffered. -/
theorem race_transient_signal_delivered_or_dropped (K ver k : Nat) (dir : Dir) (hK : 1 ≤ K) :
    let r := race .cas K ⟨dir, k, false⟩ (init ver 0)
    r.stage.buffered = 0 ∧
    (if (dir = .sigFirst ∧ k = 0) ∨ (dir = .runFirst ∧ 3 ≤ k)
     then r.stage.status = .running ∧ r.stage.resumed = 1 ∧ r.stage.queued = 1 ∧ r.stage.dropped = 0
     else r.stage.status = .suspended ∧ r.stage.resumed = 0 ∧ r.stage.queued = 0 ∧ r.stage.dropped = 1) := by
  obtain ⟨K, rfl⟩ : ∃ K', K = K' + 1 := ⟨K - 1, by omega⟩
  cases dir <;> rcases k with _ | _ | _ | k <;> race_eval

example : (race .cas 1 ⟨.runFirst, 3, false⟩ (init 0 0)).sig = .done .delivered 0 := by decide
example : (race .cas 1 ⟨.runFirst, 2, false⟩ (init 0 0)).sig = .done .dropped 0 := by decide

/-- Neither worker exhausts `retry_on_concurrency_error` in a two-worker race: both end with a proper outcome, the
    signal worker after at most one rolled-back transaction, the RunTask worker after at most one conflict
    (= `innerRuns` rolled-back attempts of `execute_atomic`); the RunTask worker never finds its task not RUNNING. -/
theorem race_workers_finish (K ver b0 k : Nat) (dir : Dir) (p : Bool) :
    let r := race .cas K ⟨dir, k, p⟩ (init ver b0)
    (match r.sig with
     | .done o rb => o ≠ .raised ∧ rb ≤ 1
     | _ => False) ∧
    (match r.run with
     | .done o rb => o ≠ .raised ∧ o ≠ .ignored ∧ o ≠ .stale ∧ rb ≤ innerRuns
     | _ => False) := by
  cases dir <;> cases p <;> rcases k with _ | _ | _ | k <;> rcases K with _ | K <;> rcases b0 with _ | b0 <;> race_eval

/-- **What the version check protects.**  In the variant whose buffering branch re-reads the stage before writing
    (`Variant.reread`: the CAS guards the re-read, the decision was taken on the first read), the window "between the
    read and the write" loses the signal, for every initial version: the stage ends SUSPENDED with the signal in its
    mailbox, nothing queued, the task ran once, no conflict was ever detected, and draining changes nothing. -/
theorem reread_variant_loses_signal (ver : Nat) :
    let r := race .reread 1 ⟨.sigFirst, 1, true⟩ (init ver 0)
    r.stage.status = .suspended ∧ r.stage.buffered = 1 ∧ r.stage.queued = 0 ∧ r.stage.execs = 1 ∧
    r.sig = .done .buffered 0 ∧ r.run = .done .suspended 0 ∧ quiesce 1 64 r.stage = r.stage := by
  race_eval
  simp [quiesce]

/-- … so "a SUSPENDED stage has an empty mailbox" (true of the real handler, `race_never_suspended_with_mail`) is FALSE of
    that variant: the negation, with the witness `K = 1, ver = 0, b0 = 0, sigFirst, k = 1`. -/
theorem reread_variant_not_safe :
    ¬ ∀ (K ver b0 k : Nat) (dir : Dir), 1 ≤ K →
        (race .reread K ⟨dir, k, true⟩ (init ver b0)).stage.status = .suspended →
        (race .reread K ⟨dir, k, true⟩ (init ver b0)).stage.buffered = 0 := by
  intro h
  have := h 1 0 0 1 .sigFirst (by omega)
  revert this
  race_eval

/-- … and that window is the only one: everywhere else the variant behaves like the real handler (the model's windows
    are exact, the defect needs precisely "B between A's read and A's re-read"). -/
theorem reread_variant_safe_elsewhere (K ver b0 k : Nat) (dir : Dir) (hK : 1 ≤ K) (hk : ¬ (dir = .sigFirst ∧ k = 1)) :
    let r := race .reread K ⟨dir, k, true⟩ (init ver b0)
    r.stage.status = .running ∧ r.stage.queued = 1 ∧ r.stage.buffered = b0 ∧ r.stage.resumed + r.stage.consumed = 1 := by
  obtain ⟨K, rfl⟩ : ∃ K', K = K' + 1 := ⟨K - 1, by omega⟩
  cases dir <;> rcases k with _ | _ | _ | _ | k <;> rcases b0 with _ | b0 <;> simp at hk <;> race_eval

example : ¬ (Dir.sigFirst = .sigFirst ∧ 2 = 1) := by decide

/-- **After the race, one resume per signal.**  Deliver the queued RunTasks one at a time (`quiesce`, any fuel
    `≥ b0 + 1`): the task is executed once more per applied signal (`execs = 1 + resumed + consumed`); if the `b0 + 1`
    signals cover the task's `K` suspensions the stage finishes after execution `K + 1` with `b0 + 1 - K` signals left
    in the mailbox, otherwise every signal was used (`b0 + 2` executions) and the stage is SUSPENDED with an empty
    mailbox and an empty queue. -/
theorem race_then_drain_resumes_once_per_signal (K ver b0 k n : Nat) (dir : Dir) (hK : 1 ≤ K) (hn : b0 + 1 ≤ n) :
    let f := quiesce K n (race .cas K ⟨dir, k, true⟩ (init ver b0)).stage
    f.queued = 0 ∧ f.execs = 1 + f.resumed + f.consumed ∧
    (if K ≤ b0 + 1 then f.status = .finished ∧ f.execs = K + 1 ∧ f.buffered = b0 + 1 - K
     else f.status = .suspended ∧ f.execs = b0 + 2 ∧ f.buffered = 0) := by
  have h := race_persistent_signal_never_lost K ver b0 k dir hK
  simp only [] at h
  obtain ⟨h1, h2, h3, h4, h5, -, -⟩ := h
  have := quiesce_spec K b0 n _ h1 h2 h4 (by omega) (by omega) hn
  simp only [h3] at this
  intro f
  refine ⟨this.1, this.2.1, ?_⟩
  have h6 := this.2.2
  by_cases hc : K ≤ b0 + 1
  · rw [if_pos (by omega)] at h6; rw [if_pos hc]; exact ⟨h6.1, h6.2.1, by rw [h6.2.2]; omega⟩
  · rw [if_neg (by omega)] at h6; rw [if_neg hc]; exact ⟨h6.1, by rw [h6.2.1]; omega, h6.2.2⟩

example : (quiesce 1 4 (race .cas 1 ⟨.sigFirst, 1, true⟩ (init 3 0)).stage).execs = 2 := by decide
example : (quiesce 2 4 (race .cas 2 ⟨.sigFirst, 1, true⟩ (init 3 0)).stage).status = .suspended := by decide
example : (quiesce 2 4 (race .cas 2 ⟨.runFirst, 2, true⟩ (init 3 1)).stage).execs = 3 := by decide

/-! ### third direction: a signal handled while StartStage starts the stage (claim commit, plan commit, plan-conflict merge)

  `raceStart`: `Dir.runFirst` = worker A is StartStage (micro-steps: read | claim CAS | plan CAS), `Dir.sigFirst` = worker A is
  the signal handler; B runs to completion after `k` micro-steps of A.  Stage NOT_STARTED, any version, any mailbox. -/

local macro "start_eval" : tactic =>
  `(tactic| (simp only [raceStart, iter_zero, iter_bound, sigInit, maxRetries]
             simp [startStep_start, startStep_loaded, startStep_claimMissed, startStep_claimed, startStep_planMissed, startStep_done,
               initStart, load, claimRetryLimit, iter_start_done, sigStep_start, sigStep_loaded_cas, sigStep_loaded_stale, sigStep_done,
               SignalRace.cas, sigConflict, iter_sig_done, iter_succ, iter_zero, add_two_ne_self, self_ne_add_two]))

/-- **A persistent signal racing with StartStage is kept exactly once.**  Whatever the window (before the claim read,
    between the read and the claim commit, between the claim commit and the plan commit, after) and whoever is worker A:
    when both are done the stage is RUNNING, planned exactly once (one StartTask chain queued), the mailbox holds the `b0`
    old entries plus the new one — none lost, none duplicated — nothing was consumed, delivered or dropped, and exactly
    three writes went through the version check (claim, plan, mailbox). -/
theorem start_race_signal_kept_exactly_once (ver b0 k : Nat) (dir : Dir) :
    let r := raceStart .cas ⟨dir, k, true⟩ (initStart ver b0)
    r.stage.status = .running ∧ r.stage.planned = 1 ∧ r.stage.queued = 1 ∧ r.stage.buffered = b0 + 1 ∧
    r.stage.dropped = 0 ∧ r.stage.resumed = 0 ∧ r.stage.consumed = 0 ∧ r.stage.execs = 0 ∧ r.stage.version = ver + 3 := by
  cases dir <;> rcases k with _ | _ | _ | k <;> start_eval

/-- A transient signal racing with StartStage is dropped in every window (the stage is never SUSPENDED during its start):
    the mailbox is untouched and the stage is planned exactly once. -/
theorem start_race_transient_signal_dropped (ver b0 k : Nat) (dir : Dir) :
    let r := raceStart .cas ⟨dir, k, false⟩ (initStart ver b0)
    r.stage.status = .running ∧ r.stage.planned = 1 ∧ r.stage.queued = 1 ∧ r.stage.buffered = b0 ∧
    r.stage.dropped = 1 ∧ r.stage.resumed = 0 ∧ r.stage.consumed = 0 ∧ r.stage.execs = 0 ∧ r.stage.version = ver + 2 := by
  cases dir <;> rcases k with _ | _ | _ | k <;> start_eval

/-- Both workers end properly in every window: StartStage starts the stage (never "duplicate", "taken over", re-queued or
    raised) after at most one rolled-back commit, the signal worker buffers / drops after at most one. -/
theorem start_race_workers_finish (ver b0 k : Nat) (dir : Dir) (p : Bool) :
    let r := raceStart .cas ⟨dir, k, p⟩ (initStart ver b0)
    (match r.start with
     | .done o rb => o = .started ∧ rb ≤ 1
     | _ => False) ∧
    (match r.sig with
     | .done o rb => (o = if p then .buffered else .dropped) ∧ rb ≤ 1
     | _ => False) := by
  cases dir <;> cases p <;> rcases k with _ | _ | _ | k <;> start_eval

/-- **After the start race, one resume per signal**: delivering the queued RunTasks one at a time (any fuel `≥ b0 + 2`),
    the task runs `1 +` (signals applied) times; if the `b0 + 1` signals cover its `K` suspensions the stage finishes after
    execution `K + 1` with `b0 + 1 - K` signals left, otherwise all were used and it is SUSPENDED with an empty mailbox. -/
theorem start_race_then_drain_resumes_once_per_signal (K ver b0 k n : Nat) (dir : Dir) (hn : b0 + 2 ≤ n) :
    let f := quiesce K n (raceStart .cas ⟨dir, k, true⟩ (initStart ver b0)).stage
    f.queued = 0 ∧ f.execs = 1 + f.resumed + f.consumed ∧
    (if K ≤ b0 + 1 then f.status = .finished ∧ f.execs = K + 1 ∧ f.buffered = b0 + 1 - K
     else f.status = .suspended ∧ f.execs = b0 + 2 ∧ f.buffered = 0) := by
  have h := start_race_signal_kept_exactly_once ver b0 k dir
  simp only [] at h
  obtain ⟨h1, -, h2, h4, -, h5, h6, h3, -⟩ := h
  have := quiesce_spec K (b0 + 1) n _ h1 h2 h4 (by omega) (by omega) hn
  simp only [h3] at this
  intro f
  refine ⟨this.1, this.2.1, ?_⟩
  have h7 := this.2.2
  by_cases hc : K ≤ b0 + 1
  · rw [if_pos (by omega)] at h7; rw [if_pos hc]; exact ⟨h7.1, h7.2.1, by rw [h7.2.2]; omega⟩
  · rw [if_neg (by omega)] at h7; rw [if_neg hc]; exact ⟨h7.1, by rw [h7.2.1]; omega, h7.2.2⟩

/-- **What the plan-conflict merge protects.**  In the variant whose merge keeps the in-memory mailbox whenever the key
    already exists (`Variant.staleMailboxWins`), a persistent signal buffered between the claim commit and the plan commit
    of a stage that already had mail (`0 < b0`) vanishes: the signal worker committed it (`buffered`, no conflict), StartStage
    detected the conflict, re-read, and then overwrote the mailbox with its stale `b0` entries — for every version. -/
theorem stale_mailbox_variant_loses_signal (ver b0 : Nat) (hb : 0 < b0) :
    let r := raceStart .staleMailboxWins ⟨.runFirst, 2, true⟩ (initStart ver b0)
    r.stage.status = .running ∧ r.stage.planned = 1 ∧ r.stage.buffered = b0 ∧ r.stage.consumed = 0 ∧ r.stage.resumed = 0 ∧
    r.stage.dropped = 0 ∧ r.sig = .done .buffered 0 ∧ r.start = .done .started 1 := by
  obtain ⟨b0, rfl⟩ : ∃ b, b0 = b + 1 := ⟨b0 - 1, by omega⟩
  start_eval

/-- … and with a task that needs two signals (`K = 2`, one buffered before, one sent during the start) the drain ends
    SUSPENDED with an empty mailbox and an empty queue after one resume, although two persistent signals were sent. -/
theorem stale_mailbox_variant_leaves_stage_suspended (ver : Nat) :
    let f := quiesce 2 8 (raceStart .staleMailboxWins ⟨.runFirst, 2, true⟩ (initStart ver 1)).stage
    f.status = .suspended ∧ f.buffered = 0 ∧ f.queued = 0 ∧ f.execs = 2 := by
  start_eval
  simp [quiesce, runAtomic, iter_bound, iter_succ, iter_zero, iter_run_done, maxRetries, runStep, SignalRace.cas, load]

/-- … so "the mailbox holds the old entries plus the new one" (`start_race_signal_kept_exactly_once`) is FALSE of that
    variant: the negation, witness `ver = 0, b0 = 1, A = StartStage, k = 2`. -/
theorem stale_mailbox_variant_not_safe :
    ¬ ∀ (ver b0 k : Nat) (dir : Dir),
        (raceStart .staleMailboxWins ⟨dir, k, true⟩ (initStart ver b0)).stage.buffered = b0 + 1 := by
  intro h
  have := h 0 1 2 .runFirst
  revert this
  start_eval

/-- … and that window with a non-empty mailbox is the only losing schedule of the variant (the model's windows are exact). -/
theorem stale_mailbox_variant_safe_elsewhere (ver b0 k : Nat) (dir : Dir) (hk : ¬ (dir = .runFirst ∧ k = 2 ∧ 0 < b0)) :
    let r := raceStart .staleMailboxWins ⟨dir, k, true⟩ (initStart ver b0)
    r.stage.status = .running ∧ r.stage.planned = 1 ∧ r.stage.queued = 1 ∧ r.stage.buffered = b0 + 1 := by
  cases dir <;> rcases k with _ | _ | _ | k <;> rcases b0 with _ | b0 <;> simp at hk <;> start_eval

example : (raceStart .cas ⟨.runFirst, 2, true⟩ (initStart 1 1)).start = .done .started 1 := by decide
example : (raceStart .cas ⟨.runFirst, 1, true⟩ (initStart 1 1)).start = .done .started 1 := by decide
example : (raceStart .cas ⟨.sigFirst, 1, true⟩ (initStart 0 0)).sig = .done .buffered 1 := by decide
example : (quiesce 2 8 (raceStart .cas ⟨.runFirst, 2, true⟩ (initStart 1 1)).stage).status = .finished := by decide

end race

/-! ### the stage-status rule keeps a waiting stage waiting -/

/-- **A stage with a SUSPENDED (or PAUSED / BUFFERED) task and no halted task is never given a completed status by the
    stage-status rule**: `determine_status` answers SUSPENDED / PAUSED / BUFFERED whatever the other tasks are, so a
    CompleteStage delivered early, late or twice cannot finish a stage that waits for its signal. -/
theorem waiting_task_keeps_stage_waiting (sc : StageCfg) (cur : Status) (ts : List Status)
    (hh : ts.contains .terminal = false ∧ ts.contains .stopped = false ∧ ts.contains .canceled = false)
    (hw : ts.contains .suspended = true ∨ ts.contains .paused = true ∨ ts.contains .buffered = true) :
    determineStatus sc cur ts = .suspended ∨ determineStatus sc cur ts = .paused ∨ determineStatus sc cur ts = .buffered := by
  have hemp : ts.isEmpty = false := by
    cases ts with
    | nil => simp at hw
    | cons a b => rfl
  obtain ⟨h1, h2, h3⟩ := hh
  unfold determineStatus
  simp only [hemp, h1, h2, h3, Bool.false_eq_true, ↓reduceIte]
  by_cases hp : ts.contains .paused = true
  · rw [if_pos hp]; simp
  by_cases hb : ts.contains .buffered = true
  · rw [if_neg hp, if_pos hb]; simp
  have hs : ts.contains .suspended = true := by
    rcases hw with h | h | h
    · exact h
    · exact absurd h hp
    · exact absurd h hb
  rw [if_neg hp, if_neg hb, if_pos hs]; simp

example : Stab.Engine.determineStatus default .running [.succeeded, .suspended, .notStarted] = .suspended := by decide
example : (Stab.Engine.determineStatus default .running [.suspended, .terminal]).isComplete = true := by decide   -- why the guard is there

end Stab.Props.C18
