/-
  C18 — Persistent signals are never lost; a suspended stage resumes once per signal.

  One-step theorems about the engine model (`hSignalStage`, the suspend branch of `processResult`), valid in ANY
  state — i.e. wherever in the schedule the signal arrives — plus "a SUSPENDED stage stays SUSPENDED under every
  message except its own signal, its own cancel and a jump re-arm".  The run-level count "resumes = effective
  signals" is checked by the harness monitor on every schedule (harness/engine_suites.py `mon_c18`); the race
  signal-vs-suspending-result at statement level is C07's CAS + retry (both handlers re-read and re-apply).
-/
import Stab.Lemmas.EngineGood

namespace Stab.Props.C18
open Stab Stab.Engine

/-- A signal handled while the stage is SUSPENDED resumes it: stage and the suspended task go back to RUNNING and
    exactly one RunTask is pushed, all in one commit together with the processed mark. -/
theorem signal_resumes_suspended (c : Cfg) (s : State) (id i t : Nat) (p : Bool)
    (hs : (s.stage i).status = .suspended)
    (ht : (List.range (s.stage i).tasks.length).find? (fun t => ((s.stage i).tasks.getD t default).status == .suspended) = some t) :
    hSignalStage c s id i p =
      [[.setStage i { s.stage i with status := .running,
                                     tasks := setTask (s.stage i).tasks t (fun x => { x with status := .running }) },
        .mark id, .push (.runTask i t)]] := by
  simp only [List.getD_eq_getElem?_getD] at ht
  simp [hSignalStage, hs, ht]

/-- A PERSISTENT signal handled while the stage is not SUSPENDED (not started yet, running, …) is buffered:
    the mailbox grows by one, nothing else changes. -/
theorem persistent_signal_is_buffered (c : Cfg) (s : State) (id i : Nat) (hs : (s.stage i).status ≠ .suspended) :
    hSignalStage c s id i true = [[.setStage i { s.stage i with buffered := (s.stage i).buffered + 1 }, .mark id]] := by
  simp [hSignalStage, hs]

/-- A TRANSIENT signal handled while the stage is not SUSPENDED has no effect (only the processed mark). -/
theorem transient_signal_is_dropped (c : Cfg) (s : State) (id i : Nat) (hs : (s.stage i).status ≠ .suspended) :
    hSignalStage c s id i false = [[.mark id]] := by
  simp [hSignalStage, hs]

/-- When the task asks to suspend and a signal is buffered, exactly ONE buffered signal is consumed, the stage
    stays RUNNING and the task is re-run once — in the same commit (no lost-signal window). -/
theorem suspend_consumes_one_buffered_signal (c : Cfg) (st : StageSt) (id i t n : Nat)
    (hs : st.status = .running) (ht : (st.tasks.getD t default).status = .running) (hb : 0 < st.buffered) :
    processResult c st id i t n .suspend =
      [[.setStage i { st with buffered := st.buffered - 1, status := .running,
                              tasks := setTask st.tasks t (fun x => { x with status := .running }) },
        .mark id, .push (.runTask i t)]] := by
  have : ¬ (st.buffered = 0) := Nat.ne_of_gt hb
  simp only [List.getD_eq_getElem?_getD] at ht
  simp [processResult, hs, ht, hb]

/-- … and with an empty mailbox the stage and the task become SUSPENDED durably and NO continuation is pushed. -/
theorem suspend_without_signal_waits (c : Cfg) (st : StageSt) (id i t n : Nat)
    (hs : st.status = .running) (ht : (st.tasks.getD t default).status = .running) (hb : st.buffered = 0) :
    processResult c st id i t n .suspend =
      [[.setStage i { st with status := .suspended, tasks := setTask st.tasks t (fun x => { x with status := .suspended }) },
        .mark id]] := by
  simp only [List.getD_eq_getElem?_getD] at ht
  simp [processResult, hs, ht, hb]

/-- the only effects of a handler that could move stage `i` away from SUSPENDED -/
def KeepsSuspended (s : State) (i : Nat) (e : Eff) : Prop :=
  ∀ new, e = .setStage i new → (s.stage i).status = .suspended → new.status = .suspended

/-- **A SUSPENDED stage stays SUSPENDED**: no message other than its own SignalStage, its own CancelStage or a
    JumpToStage (re-arm) writes another status to it — whatever else is delivered, in whatever order. -/
theorem suspended_stays_suspended (c : Cfg) (s : State) (row : Row) (i : Nat)
    (h1 : ∀ p, row.msg ≠ .signalStage i p) (h2 : row.msg ≠ .cancelStage i) (h3 : ∀ a b, row.msg ≠ .jumpToStage a b) :
    ∀ e ∈ (handle c s row).1.flatten, KeepsSuspended s i e := by
  intro e he new hnew hsusp
  subst hnew
  unfold handle at he
  cases hm : row.msg with
  | startWorkflow =>
    simp only [hm, hStartWorkflow] at he
    (repeat' split at he) <;> simp at he
  | startStage j r =>
    simp only [hm, hStartStage, startIfReady] at he
    (repeat' split at he) <;> simp at he
    all_goals (try (rcases he with he | he))
    all_goals (try (obtain ⟨rfl, rfl⟩ := he))
    all_goals simp_all
  | startTask j t =>
    simp only [hm, hStartTask] at he
    (repeat' split at he) <;> simp at he
    obtain ⟨rfl, rfl⟩ := he
    exact hsusp
  | runTask j t =>
    simp only [hm, hRunTask] at he
    (repeat' split at he) <;> simp at he
    all_goals (try (obtain ⟨rfl, rfl⟩ := he; exact hsusp))
    rename_i oc _
    unfold processResult at he
    cases oc <;> simp at he
    all_goals (try (obtain ⟨rfl, rfl⟩ := he; exact hsusp))
    all_goals (try ((repeat' split at he) <;> simp at he))
    all_goals (try (obtain ⟨rfl, rfl⟩ := he))
    all_goals simp_all
  | completeTask j t st =>
    simp only [hm, hCompleteTask] at he
    (repeat' split at he) <;> simp at he
    all_goals (obtain ⟨rfl, rfl⟩ := he; exact hsusp)
  | completeStage j =>
    simp only [hm, hCompleteStage] at he
    (repeat' split at he) <;> simp at he
    all_goals (try (obtain ⟨rfl, rfl⟩ := he))
    all_goals (try simp_all)
    all_goals (
      rcases he with ⟨l, hl, hmem⟩ | ⟨rfl, _⟩
      · have := joinTracking_preserving c s j (.setStage i new) (List.mem_flatten.mpr ⟨l, hl, hmem⟩)
        exact this.1.trans hsusp
      · simp_all)
  | skipStage j =>
    simp only [hm, hSkipStage] at he
    (repeat' split at he) <;> simp at he
    all_goals (try (rcases he with he | he))
    all_goals (try (obtain ⟨rfl, rfl⟩ := he))
    all_goals simp_all
  | cancelStage j =>
    simp only [hm, hCancelStage] at he
    (repeat' split at he) <;> simp at he
    obtain ⟨rfl, rfl⟩ := he
    exact absurd hm h2
  | completeWorkflow r =>
    simp only [hm, hCompleteWorkflow] at he
    (repeat' split at he) <;> simp at he
  | cancelWorkflow =>
    simp only [hm, hCancelWorkflow] at he
    (repeat' split at he) <;> simp at he
  | jumpToStage a b => exact absurd hm (h3 a b)
  | signalStage j p =>
    simp only [hm, hSignalStage] at he
    (repeat' split at he) <;> simp at he
    all_goals (obtain ⟨rfl, rfl⟩ := he)
    all_goals (first | exact absurd hm (h1 p) | simp_all)

end Stab.Props.C18
