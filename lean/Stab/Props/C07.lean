/- Property theorems for C07 — to be filled in. -/
namespace Stab.Props.C07
end Stab.Props.C07
