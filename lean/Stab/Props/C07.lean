/-
  C07 — concurrent writers never silently overwrite each other.

  Theorems about the executable model `Stab.CasRow` (lean/Stab/Model/CasRow.lean) of `store_stage`
  (auto-commit and transactional, with / without `expected_phase`) and `upsert_task`, plus the
  generated SQL shapes (`Stab.Gen.StoreSql`, regenerated from the source on every run).
  `run (init st nt) ops` ranges over every interleaving of read / modify / write / retry by any number of
  clients and an outside writer of task rows (`bump`).
-/
import Stab.Lemmas.CasRow
import Stab.Gen.StoreSql

namespace Stab.Props.C07
open Stab Stab.CasRow

/-! ## the SQL that is modelled (generated tables) -/

open Stab.Gen.StoreSql in
/-- the store's and the transaction's `store_stage` issue the same UPDATEs -/
theorem gen_store_and_txn_agree : storePlain = txnPlain ∧ storePhase = txnPhase := by decide

open Stab.Gen.StoreSql in
/-- every UPDATE of the protocol has `version = :version` in its WHERE clause and bumps the version -/
theorem gen_every_update_is_cas :
    ∀ u ∈ [storePlain, storePhase, txnPlain, txnPhase, taskUpdate],
      u.cond.contains "version = :version" = true ∧ u.cond.contains "id = :id" = true ∧
      u.set.contains ("version", "version + 1") = true := by decide

open Stab.Gen.StoreSql in
/-- the `expected_phase` variants add exactly `status = :expected_phase`; the plain ones have nothing else -/
theorem gen_where_clauses :
    storePlain.cond = ["id = :id", "version = :version"] ∧
    storePhase.cond = ["id = :id", "version = :version", "status = :expected_phase"] ∧
    taskUpdate.cond = ["id = :id", "version = :version"] := by decide

open Stab.Gen.StoreSql in
/-- the stage UPDATE writes the columns the model's `Content` stands for (status; context, outputs; the two
    time stamps) and the version — nothing else, and the same in all four statements -/
theorem gen_set_columns :
    ∀ u ∈ [storePlain, storePhase, txnPlain, txnPhase],
      u.table = "stage_executions" ∧
      u.set.map Prod.fst = ["status", "context", "outputs", "start_time", "end_time", "version"] := by decide

open Stab.Gen.StoreSql in
/-- `upsert_task`: a fresh row starts at version 0; `rowcount == 0` / IntegrityError become ConcurrencyError;
    the in-memory versions follow the row versions; the auto-commit store_stage rolls back before it raises
    (F33 repair) and the transaction context rolls back on an exception -/
theorem gen_shapes :
    taskInsert.contains ("version", "0") = true ∧ taskUpdate.table = "task_executions" ∧
    storeRowcountZeroRaises = true ∧ txnRowcountZeroRaises = true ∧ taskIntegrityErrorMapped = true ∧
    storeBumpsLocalVersion = true ∧ txnBumpsLocalVersion = true ∧ taskBumpsLocalVersion = true ∧
    storeCommits = true ∧ storeRollsBackOnConflict = true ∧
    txnStoreStageCommits = false ∧ txnContextRollsBackOnException = true := by decide

/-! ## at most one winner per version -/

/-- **One winner per version.** The versions the successful writes were based on are strictly increasing in
    commit order — in particular no two successful writes were based on the same version. -/
theorem one_winner_per_version (st nt : Nat) (ops : List Op) :
    (run (init st nt) ops).commits.Pairwise (fun a b => a.2 < b.2) :=
  (commits_run (commits_init st nt) ops).incr

theorem one_winner_per_version_count (st nt : Nat) (ops : List Op) (v : Nat) :
    ((run (init st nt) ops).commits.filter (fun p => p.2 == v)).length ≤ 1 := by
  have h := one_winner_per_version st nt ops
  generalize (run (init st nt) ops).commits = l at h
  induction l with
  | nil => simp
  | cons a l ih =>
    rw [List.pairwise_cons] at h
    by_cases e : a.2 = v
    · have : l.filter (fun p => p.2 == v) = [] := by
        apply List.filter_eq_nil_iff.mpr
        intro b hb hc
        simp only [beq_iff_eq] at hc
        have := h.1 b hb
        omega
      simp [List.filter_cons, e, this]
    · have e' : (a.2 == v) = false := by simp [e]
      simp only [List.filter_cons, e']
      exact ih h.2

/-- two clients hold the same version; the first write succeeds ⇒ the second gets ConcurrencyError
    (whatever variants / expected phases they use) and changes nothing -/
theorem second_writer_conflicts (s : State) (c1 c2 : Nat) (o1 o2 : Obj) (t1 t2 : Bool) (p1 p2 : Option Nat)
    (hne : c1 ≠ c2) (h1 : getObj s c1 = some o1) (h2 : getObj s c2 = some o2) (same : o1.version = o2.version)
    (ok : (writeOp s c1 t1 p1).2 = .ok) :
    writeOp (writeOp s c1 t1 p1).1 c2 t2 p2 = ((writeOp s c1 t1 p1).1, .conflict) := by
  obtain ⟨o, ho, hv, hv1, hother⟩ := writeOp_ok_spec ok
  rw [h1] at ho
  cases ho
  have g2 : getObj (writeOp s c1 t1 p1).1 c2 = some o2 := by rw [hother c2 (fun e => hne e.symm), h2]
  have hver : ((writeOp s c1 t1 p1).1.db.version == o2.version) = false := by
    rw [hv1]; simp; omega
  generalize (writeOp s c1 t1 p1).1 = s1 at g2 hver ⊢
  unfold writeOp
  simp [g2, hver]

/-! ## no lost update -/

/-- **A failed write changes nothing** — in BOTH variants (the auto-commit `store_stage` rolls back before it raises
    since the F33 repair; the transaction context always did), also when the failure comes from a task row that an
    outside writer changed after the stage UPDATE had succeeded. -/
theorem failed_write_changes_nothing (s : State) (c : Nat) (txn : Bool) (p : Option Nat)
    (h : (writeOp s c txn p).2 ≠ .ok) : (writeOp s c txn p).1 = s := by
  unfold writeOp at h ⊢
  split
  · rfl
  · rename_i o ho
    simp only [ho] at h
    split
    · rename_i hg
      simp only [hg, if_true] at h
      split
      rename_i rows mem okk hu
      simp only [hu] at h
      split
      · rename_i hok; simp [hok] at h
      · rfl
    · rfl

/-- **No lost update.** After ANY interleaving of reads, modifications, writes (auto-commit or transactional, with or
    without expected_phase), retries and outside task writers, the durable content is the fold of the SUCCESSFUL
    modifications in commit order, each applied to what its predecessor left.  (Before the F33 repair this needed
    "no write ended half-applied", which the auto-commit variant could violate.) -/
theorem no_lost_update (st nt : Nat) (ops : List Op) :
    (run (init st nt) ops).db.content = fold (init st nt).db.content (run (init st nt) ops).log :=
  (inv_run (inv_init st nt) (by simp [Folded, fold, init]) ops).2

/-- every successful write was computed from exactly the content it replaced: a client whose snapshot has the
    current version holds the current content -/
theorem snapshot_current_iff_version (st nt : Nat) (ops : List Op)
    (c : Nat) (o : Obj) (h : getObj (run (init st nt) ops) c = some o)
    (hv : o.version = (run (init st nt) ops).db.version) :
    o.base = (run (init st nt) ops).db.content ∧ o.cur = fold o.base o.pend := by
  have hi := (inv_run (c0 := (init st nt).db.content) (inv_init st nt) (by simp [Folded, fold, init]) ops).1
  have hm := getObj_mem h
  exact ⟨hi.fresh (c, o) hm hv, hi.cur (c, o) hm⟩

/-- the F33 schedule: read, modify, an outside writer bumps task 0, auto-commit write -/
def partialOps : List Op :=
  [.read 0, .modify 0 { setStatus := none, entry := 7, taskSt := none, addTask := false }, .bump 0, .write 0 false none]

-- regression: the write is refused as a whole in both variants, the row keeps version 0 and its content
example : (step (run (init 1 1) (partialOps.take 3)) (.write 0 false none)).2 = .conflict ∧
    (step (run (init 1 1) (partialOps.take 3)) (.write 0 false none)).1.db = (run (init 1 1) (partialOps.take 3)).db ∧
    (step (run (init 1 1) (partialOps.take 3)) (.write 0 true none)).2 = .conflict := by decide
-- non-vacuity of `no_lost_update`: two clients race, one loses, retries, both changes survive in commit order
example :
    let ops : List Op := [.read 0, .read 1,
      .modify 0 { setStatus := some 2, entry := 1, taskSt := none, addTask := false },
      .modify 1 { setStatus := none, entry := 2, taskSt := some (0, 4), addTask := true },
      .write 0 true none, .write 1 false none, .retry 1 false none]
    (run (init 1 2) ops).db.content = { status := 2, payload := [1, 2] }
      ∧ (run (init 1 2) ops).commits = [(0, 0), (1, 1)] := by decide

/-! ## retry -/

/-- **Retry linearizes.** `retry` (read again, re-apply the uncommitted modifications, write; nothing in between)
    always succeeds when no phase is demanded, and its effect is exactly "apply the modifications to the
    current row": content = fold of the pending modifications over the CURRENT content, version + 1, and the
    modifications enter the log once. -/
theorem retry_linearizes (st nt : Nat) (ops : List Op) (c : Nat) (o : Obj) (txn : Bool)
    (h : getObj (run (init st nt) ops) c = some o) :
    let s := run (init st nt) ops
    (retryOp s c txn none).2 = .ok ∧
    (retryOp s c txn none).1.db.content = fold s.db.content o.pend ∧
    (retryOp s c txn none).1.db.version = s.db.version + 1 ∧
    (retryOp s c txn none).1.log = s.log ++ o.pend ∧
    (retryOp s c txn none).1.commits = s.commits ++ [(c, s.db.version)] := by
  intro s
  have hd : DbT s := dbT_run (dbT_init st nt) ops
  obtain ⟨o', r, e1, e2, e3, e4, e5, e6, e7⟩ := ready_reapply o.pend (ready_read hd c)
  have hdb : (readOp s c).db = s.db := rfl
  have hlog : (readOp s c).log = s.log := rfl
  have hcm : (readOp s c).commits = s.commits := rfl
  have hok : (upsertAll (reapply (readOp s c) c o.pend).db.tasks o'.tasks).2.2 = true := by
    apply upsertAll_ok _ _ _ r.dist r.fits
    rw [e5, hdb]; exact hd.d
  have hver : ((reapply (readOp s c) c o.pend).db.version == o'.version) = true := by
    rw [e5, hdb, e1]; simp
  simp only [retryOp, show getObj s c = some o from h]
  unfold writeOp
  simp only [r.get, hver, phaseOk, Bool.and_self, if_true]
  cases hu : upsertAll (reapply (readOp s c) c o.pend).db.tasks o'.tasks with
  | mk rows rest =>
    obtain ⟨mem, okk⟩ := rest
    rw [hu] at hok
    simp only at hok
    subst hok
    simp only [if_true]
    refine ⟨by first | rfl | trivial, ?_, ?_, ?_, ?_⟩
    · show o'.cur = fold s.db.content o.pend
      rw [e2]
    · show (reapply (readOp s c) c o.pend).db.version + 1 = s.db.version + 1
      rw [e5, hdb]
    · show (reapply (readOp s c) c o.pend).log ++ o'.pend = s.log ++ o.pend
      rw [e6, hlog, e3]; simp
    · show (reapply (readOp s c) c o.pend).commits ++ [(c, o'.version)] = s.commits ++ [(c, s.db.version)]
      rw [e7, hcm, e1]

/-! ## tasks -/

/-- **`upsert_task` is a compare-and-swap.**  On a table with unique task ids: a matching `(id, version)` bumps
    that row's version and sets its status, touching no other row; an unknown id inserts at version 0 without
    touching the in-memory version; a known id with another version is a ConcurrencyError — never an overwrite. -/
theorem task_upsert_cas (rows : List TRow) (t : TRow) (hd : Distinct rows) :
    (∀ r ∈ rows, r.tid = t.tid → r.ver ≠ t.ver → upsert rows t = none) ∧
    (∀ r ∈ rows, r.tid = t.tid → r.ver = t.ver →
        ∃ rows', upsert rows t = some (rows', t.ver + 1) ∧ { r with ver := r.ver + 1, st := t.st } ∈ rows' ∧
          (∀ r0 ∈ rows, r0.tid ≠ t.tid → r0 ∈ rows') ∧ rows'.length = rows.length) ∧
    ((∀ r ∈ rows, r.tid ≠ t.tid) → upsert rows t = some (rows ++ [{ tid := t.tid, ver := 0, st := t.st }], t.ver)) := by
  have hu := unique_tid hd
  refine ⟨?_, ?_, ?_⟩
  · intro r hr e1 e2
    have h1 : rows.any (fun r => r.tid == t.tid && r.ver == t.ver) = false := by
      simp only [List.any_eq_false, Bool.and_eq_true, beq_iff_eq, not_and]
      intro r0 hr0 e0 ev
      have : r0 = r := hu r0 hr0 r hr (by omega)
      subst this; exact e2 ev
    have h2 : rows.any (fun r => r.tid == t.tid) = true := by
      simp only [List.any_eq_true, beq_iff_eq]; exact ⟨r, hr, e1⟩
    simp [upsert, h1, h2]
  · intro r hr e1 e2
    have h1 : rows.any (fun r => r.tid == t.tid && r.ver == t.ver) = true := by
      simp only [List.any_eq_true, Bool.and_eq_true, beq_iff_eq]; exact ⟨r, hr, e1, e2⟩
    refine ⟨rows.map (fun r => if r.tid == t.tid && r.ver == t.ver then { r with ver := r.ver + 1, st := t.st } else r),
      by simp only [upsert, h1, if_true], ?_, ?_, by simp⟩
    · simp only [List.mem_map]
      exact ⟨r, hr, by simp [e1, e2]⟩
    · intro r0 hr0 hne
      simp only [List.mem_map]
      refine ⟨r0, hr0, ?_⟩
      have : (r0.tid == t.tid) = false := by simp [hne]
      simp [this]
  · intro habs
    have h1 : rows.any (fun r => r.tid == t.tid && r.ver == t.ver) = false := by
      simp only [List.any_eq_false, Bool.and_eq_true, beq_iff_eq, not_and]
      intro r hr e; exact absurd e (habs r hr)
    have h2 : rows.any (fun r => r.tid == t.tid) = false := by
      simp only [List.any_eq_false, beq_iff_eq]
      intro r hr e; exact absurd e (habs r hr)
    simp [upsert, h1, h2]

/-- the task table keeps unique ids under every op sequence (what the `(id, version)` CAS relies on) -/
theorem task_ids_unique (st nt : Nat) (ops : List Op) : Distinct (run (init st nt) ops).db.tasks :=
  (dbT_run (dbT_init st nt) ops).d

-- a stale in-memory task version is refused, a matching one bumps
example : upsert [⟨0, 2, 0⟩, ⟨1, 0, 0⟩] ⟨0, 1, 4⟩ = none ∧
    upsert [⟨0, 2, 0⟩, ⟨1, 0, 0⟩] ⟨0, 2, 4⟩ = some ([⟨0, 3, 4⟩, ⟨1, 0, 0⟩], 3) := by decide

/-! ## torn reads: a read call is several SQL statements

  `srun v (sinit st nt) ops` ranges over every interleaving in which a read call is split into its statements
  (`readRow`, `readTasks`, `readEnd`) with any atomic ops of any clients — complete committed writes included —
  between them.  `Variant.sameStatement` is the code: `version` arrives in the same row as status / context / outputs.
-/

open Stab.Gen.StoreSql in
/-- the read path as generated from the source: in every function that builds the stage objects handed to
    `store_stage` nothing assigns `<object>.version` after construction, and `row_to_stage` takes `version` from the
    very row that supplies status / context / outputs — i.e. the code is `Variant.sameStatement` -/
theorem gen_read_version_same_statement :
    readPathVersionAssignments = [] ∧ readPathVersionSelects = [] ∧
    rowToStageVersionFromRow = true ∧ rowToStageContentFromRow = true := by decide

/-- **No lost update with split reads.**  Because the version is read in the SAME statement as the fields it guards,
    after ANY interleaving of read statements, modifications, writes, retries and outside task writers the durable
    content is still the fold of the successful modifications in commit order. -/
theorem split_read_no_lost_update (st nt : Nat) (ops : List SOp) :
    (srun .sameStatement (sinit st nt) ops).base.db.content =
      fold (init st nt).db.content (srun .sameStatement (sinit st nt) ops).base.log :=
  (sinv_run (sinv_init st nt) (by simp [Folded, fold, init, sinit]) ops).2

/-- **A write after a (possibly torn) read fails its CAS or loses nothing.**  In any state reached with split reads,
    a `store_stage` (either variant, any expected phase) of any client either raises ConcurrencyError and changes
    nothing, or succeeds and then the new content is the CURRENT durable content — whatever the other writers
    committed between the statements of the read or after it — with exactly the client's own modifications applied
    on top, the version advances by exactly one, and those modifications enter the log once. -/
theorem split_read_write_fails_or_keeps (st nt : Nat) (ops : List SOp) (c : Nat) (txn : Bool) (p : Option Nat) :
    let s := (srun .sameStatement (sinit st nt) ops).base
    ((writeOp s c txn p).2 ≠ .ok ∧ (writeOp s c txn p).1 = s) ∨
    (∃ o, getObj s c = some o ∧ (writeOp s c txn p).2 = .ok ∧
      (writeOp s c txn p).1.db.content = fold s.db.content o.pend ∧
      (writeOp s c txn p).1.db.version = s.db.version + 1 ∧
      (writeOp s c txn p).1.log = s.log ++ o.pend) := by
  intro s
  by_cases ok : (writeOp s c txn p).2 = .ok
  · right
    obtain ⟨o, ho, hv, hc, hl⟩ := writeOp_ok_content ok
    obtain ⟨o', ho', _, hv1, _⟩ := writeOp_ok_spec ok
    have hi := (sinv_run (c0 := (init st nt).db.content) (sinv_init st nt)
      (by simp [Folded, fold, init, sinit]) ops).1.inv
    have hm := getObj_mem ho
    refine ⟨o, ho, ok, ?_, hv1, hl⟩
    rw [hc, hi.cur (c, o) hm, hi.fresh (c, o) hm hv.symm]
  · left
    exact ⟨ok, failed_write_changes_nothing s c txn p ok⟩

/-- an object whose read was torn (a writer committed after its `readRow`) is behind the row, so its write conflicts -/
theorem torn_object_is_refused (st nt : Nat) (ops : List SOp) (c : Nat) (o : Obj) (txn : Bool) (p : Option Nat)
    (h : getObj (srun .sameStatement (sinit st nt) ops).base c = some o)
    (torn : o.base ≠ (srun .sameStatement (sinit st nt) ops).base.db.content) :
    writeOp (srun .sameStatement (sinit st nt) ops).base c txn p =
      ((srun .sameStatement (sinit st nt) ops).base, .conflict) := by
  have hi := (sinv_run (c0 := (init st nt).db.content) (sinv_init st nt)
    (by simp [Folded, fold, init, sinit]) ops).1.inv
  have hm := getObj_mem h
  have hne : ((srun .sameStatement (sinit st nt) ops).base.db.version == o.version) = false := by
    simp only [beq_eq_false_iff_ne, ne_eq]
    intro e
    exact torn (hi.fresh (c, o) hm e.symm)
  generalize (srun .sameStatement (sinit st nt) ops).base = s at h hne ⊢
  unfold writeOp
  simp [h, hne]

/-- the torn-read schedule: client 0's read is split; between its row statement and the rest client 1 reads, sets the
    stage status to 3 and appends entry 7, and commits (transactional path); client 0 then appends entry 8 to what it
    read and writes (auto-commit) -/
def tornSchedule : List SOp :=
  [.readRow 0,
   .op (.read 1), .op (.modify 1 { setStatus := some 3, entry := 7, taskSt := none, addTask := false }), .op (.write 1 true none),
   .readTasks 0, .readVer 0, .readEnd 0,
   .op (.modify 0 { setStatus := none, entry := 8, taskSt := none, addTask := false }), .op (.write 0 false none)]

/-- **The variant that re-reads the version in a later statement loses an update.**  On `tornSchedule` client 0's
    object carries client 1's NEW version with the OLD status / payload; its write passes the CAS: both writes
    report success (`commits`), both modifications are in the log, yet the row holds status 1 and payload [8] —
    client 1's committed status 3 and entry 7 are silently reverted. -/
theorem reread_version_loses_update :
    (sstep .rereadVersion (srun .rereadVersion (sinit 1 1) (tornSchedule.take 8)) (.op (.write 0 false none))).2 = .ok ∧
    (srun .rereadVersion (sinit 1 1) tornSchedule).base.commits = [(1, 0), (0, 1)] ∧
    (srun .rereadVersion (sinit 1 1) tornSchedule).base.log.map (·.entry) = [7, 8] ∧
    (srun .rereadVersion (sinit 1 1) tornSchedule).base.db.content = { status := 1, payload := [8] } ∧
    (srun .rereadVersion (sinit 1 1) tornSchedule).base.db.content ≠
      fold (init 1 1).db.content (srun .rereadVersion (sinit 1 1) tornSchedule).base.log := by decide

-- the same schedule in the code's variant: the torn object keeps version 0, its write is refused, nothing is lost;
-- and (non-vacuity of `split_read_write_fails_or_keeps`, success branch) the retry then lands both changes
example :
    (sstep .sameStatement (srun .sameStatement (sinit 1 1) (tornSchedule.take 8)) (.op (.write 0 false none))).2 = .conflict ∧
    (srun .sameStatement (sinit 1 1) tornSchedule).base.db.content = { status := 3, payload := [7] } ∧
    (srun .sameStatement (sinit 1 1) (tornSchedule ++ [.op (.retry 0 false none)])).base.db.content
      = { status := 3, payload := [7, 8] } := by decide
-- a split read with the writer entirely BEFORE the row statement hands out the new version with the new content
example :
    let ops : List SOp := [.op (.read 1), .op (.modify 1 { setStatus := none, entry := 7, taskSt := some (0, 4), addTask := false }),
      .op (.write 1 true none), .readRow 0, .readTasks 0, .readEnd 0,
      .op (.modify 0 { setStatus := none, entry := 8, taskSt := none, addTask := false }), .op (.write 0 true (some 1))]
    (srun .sameStatement (sinit 1 1) ops).base.db = { version := 2, content := { status := 1, payload := [7, 8] }, tasks := [⟨0, 2, 4⟩] } := by
  decide

end Stab.Props.C07
