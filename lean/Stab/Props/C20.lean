/- Property theorems for C20 — to be filled in. -/
namespace Stab.Props.C20
end Stab.Props.C20
