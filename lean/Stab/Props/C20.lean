/-
  C20 — Graph validation and condition expressions are sound and total.

  Part 1 (graph): `Stab.Topo` models `validate_stage_graph` (what `Workflow.create` runs) and
  `topological_sort`.  *Acyclic* is stated independently of Kahn's algorithm: no ref reaches itself
  through one or more requisite edges (`Topo.Acyclic`).  That is the direct reading of "acyclic";
  the other candidate — "a topological order exists" — is what `toposort_sound`/`toposort_complete`
  then *prove* about it (on graphs with known refs: acyclic ⇔ Kahn returns an order of all stages).

  Part 2 (expressions): `Stab.Expr` models `_eval_node` from the AST level.  The model of record
  (`Guards.fixed`, `Expr.eval`) mirrors the code WITH proposed_fixes/F2.diff; `Guards.current` is the
  code as found.  `eval_total` holds of the former; `eval_total_current_counterexample` /
  `each_new_guard_is_necessary` show with concrete witnesses that it fails of the latter (finding F2);
  `patch_only_changes_exception_class` shows the patch cannot change a value.
  `source_guards_are_fixed` is the proof obligation that breaks on a tree without the patch.

  Part 3 (purity / shape): evaluation in the model is a pure function by construction
  (`evalF : Guards → Env → Nat → Expr → Except Err Value` has no state to change).  What ties this to
  the source are the facts regenerated from `expressions.py` on every run (`Stab.Gen.ExprShape`):
  the dispatch list equals the model's constructor list, the operator tables equal the model's
  operators, the file imports nothing but `ast`/`operator`/typing helpers, calls nothing dangerous
  and stores to nothing but local names.

  Part 4 (callers): both callers catch exactly `ExpressionError`; under `eval_total` their outcome is
  skip / no-skip, never an exception.
-/
import Stab.Lemmas.C20Topo
import Stab.Lemmas.C20Expr
import Stab.Gen.ExprShape

namespace Stab.Props.C20

/-! ## Part 1 — graph validation and topological order -/
section Graph
open Stab.Topo

/-- **toposort_sound.** Whatever `topological_sort` returns is a permutation of the (top-level)
    input in which every stage comes after all of its requisites.  No validity assumption. -/
theorem toposort_sound (stages out : List Stage) (h : toposort stages = .ok out) :
    Ordered out ∧ out.Perm (topLevel stages) := by
  unfold toposort toposortLayers at h
  cases hk : kahn (topLevel stages).length (topLevel stages) [] with
  | error e => rw [hk] at h; cases h
  | ok layers =>
    rw [hk] at h
    simp only [Except.map, Except.ok.injEq] at h
    subst h
    have := kahn_ok _ _ _ _ hk (by simpa using ordered_nil)
    simpa using this

/-- When `topological_sort` raises `CircularDependencyError` on a graph whose requisites all exist,
    there really is a cycle (so the fuel of the model's loop is never what stops it). -/
theorem toposort_stuck_has_cycle (stages stuck : List Stage) (h : toposort stages = .error stuck)
    (hknown : Known (topLevel stages)) : ∃ c, Reach (topLevel stages) c c := by
  unfold toposort toposortLayers at h
  cases hk : kahn (topLevel stages).length (topLevel stages) [] with
  | ok layers => rw [hk] at h; cases h
  | error e =>
    rw [hk] at h
    simp only [Except.map, Except.error.injEq] at h
    subst h
    obtain ⟨hne, em, hp, hst⟩ := kahn_error _ _ _ _ (Nat.le_refl _) hk
    simp only [List.flatten_nil, List.nil_append] at hp
    apply exists_cycle (Edge (topLevel stages)) (e.map (·.ref)).length (e.map (·.ref)) (Nat.le_refl _)
      (by simpa using hne)
    intro x hx
    obtain ⟨s, hs, rfl⟩ := List.mem_map.mp hx
    have hsts : s ∈ topLevel stages := hp.subset (by simp [hs])
    have hnr := hst s hs
    have : ¬ ∀ r ∈ s.reqs, r ∈ em.map (·.ref) := by
      intro hall
      rw [(ready_iff _ s).mpr hall] at hnr
      cases hnr
    simp only [Classical.not_forall] at this
    obtain ⟨r, hr, hrn⟩ := this
    have hrk : r ∈ (em ++ e).map (·.ref) := (hp.map _).symm.subset (hknown s hsts r hr)
    simp only [List.map_append, List.mem_append] at hrk
    rcases hrk with h1 | h2
    · exact absurd h1 hrn
    · exact ⟨r, h2, s, hsts, rfl, hr⟩

/-- **toposort_complete.** On a graph with known requisites and no cycle `topological_sort`
    succeeds and returns all stages (in a sound order). -/
theorem toposort_complete (stages : List Stage) (hknown : Known (topLevel stages))
    (hac : Acyclic (topLevel stages)) :
    ∃ out, toposort stages = .ok out ∧ out.Perm (topLevel stages) ∧ Ordered out := by
  cases h : toposort stages with
  | ok out => exact ⟨out, rfl, (toposort_sound _ _ h).2, (toposort_sound _ _ h).1⟩
  | error stuck =>
    obtain ⟨c, hc⟩ := toposort_stuck_has_cycle _ _ h hknown
    exact absurd hc (hac c)

/-- **validate_ok_iff.** `validate_stage_graph` (hence `Workflow.create`) succeeds exactly when the
    refs are distinct, no stage names itself, every requisite names an existing stage, and no ref
    reaches itself through requisites. -/
theorem validate_ok_iff (stages : List Stage) :
    validate stages = .ok () ↔ Valid (topLevel stages) := by
  unfold validate Valid
  simp only
  cases hd : firstDup [] ((topLevel stages).map (·.ref)) with
  | some r =>
    simp only [reduceCtorEq, false_iff, not_and]
    intro hnd
    have := (firstDup_none_iff _ []).mpr ⟨hnd, by simp⟩
    rw [this] at hd; cases hd
  | none =>
    have hnd := ((firstDup_none_iff _ _).mp hd).1
    cases hs : structural ((topLevel stages).map (·.ref)) (topLevel stages) with
    | some e =>
      simp only [reduceCtorEq, false_iff, not_and]
      intro _ hself hknown
      have := (structural_none_iff _ _).mpr (fun s hs' => ⟨hself s hs', hknown s hs'⟩)
      rw [this] at hs; cases hs
    | none =>
      have hsk := (structural_none_iff _ _).mp hs
      have hself : NoSelfEdge (topLevel stages) := fun s h => (hsk s h).1
      have hknown : Known (topLevel stages) := fun s h => (hsk s h).2
      cases ht : toposort stages with
      | ok out =>
        simp only [true_iff]
        refine ⟨hnd, hself, hknown, ?_⟩
        obtain ⟨ho, hp⟩ := toposort_sound _ _ ht
        have hnd' : (out.map (·.ref)).Nodup := ((hp.map _).nodup_iff).mpr hnd
        exact acyclic_congr (fun s => hp.mem_iff) (acyclic_of_ordered hnd' ho)
      | error stuck =>
        simp only [reduceCtorEq, false_iff, not_and]
        intro _ _ _ hac
        obtain ⟨c, hc⟩ := toposort_stuck_has_cycle _ _ ht hknown
        exact hac c hc

/-- **Which error.** `CircularDependencyError` is raised exactly for a structurally sound graph
    with a genuine cycle; `InvalidStageGraphError` exactly when the structure itself is broken
    (duplicate ref, self-edge or unknown ref). -/
theorem validate_error_class (stages : List Stage) :
    ((∃ e, validate stages = .error e ∧ e.isCircular = true) ↔
      ((topLevel stages).map (·.ref)).Nodup ∧ NoSelfEdge (topLevel stages) ∧ Known (topLevel stages)
        ∧ ¬ Acyclic (topLevel stages))
    ∧ ((∃ e, validate stages = .error e ∧ e.isCircular = false) ↔
      ¬ (((topLevel stages).map (·.ref)).Nodup ∧ NoSelfEdge (topLevel stages) ∧ Known (topLevel stages))) := by
  have hok := validate_ok_iff stages
  unfold validate Valid at hok
  unfold validate
  simp only at hok ⊢
  cases hd : firstDup [] ((topLevel stages).map (·.ref)) with
  | some r =>
    have hnnd : ¬ ((topLevel stages).map (·.ref)).Nodup := by
      intro hnd
      have := (firstDup_none_iff _ []).mpr ⟨hnd, by simp⟩
      rw [this] at hd; cases hd
    constructor
    · constructor
      · rintro ⟨e, he, hc⟩; cases he; cases hc
      · rintro ⟨hnd, _⟩; exact absurd hnd hnnd
    · constructor
      · intro _ h; exact hnnd h.1
      · intro _; exact ⟨_, rfl, rfl⟩
  | none =>
    have hnd := ((firstDup_none_iff _ _).mp hd).1
    cases hs : structural ((topLevel stages).map (·.ref)) (topLevel stages) with
    | some e =>
      have hbad : ¬ (NoSelfEdge (topLevel stages) ∧ Known (topLevel stages)) := by
        rintro ⟨hself, hknown⟩
        have := (structural_none_iff _ _).mpr (fun s hs' => ⟨hself s hs', hknown s hs'⟩)
        rw [this] at hs; cases hs
      have hnc := structural_some_not_circular _ _ _ hs
      constructor
      · constructor
        · rintro ⟨e', he', hc⟩
          simp only [Except.error.injEq] at he'
          subst he'
          rw [hnc] at hc; cases hc
        · rintro ⟨_, h1, h2, _⟩; exact absurd ⟨h1, h2⟩ hbad
      · constructor
        · intro _ h; exact hbad ⟨h.2.1, h.2.2⟩
        · intro _; exact ⟨e, rfl, hnc⟩
    | none =>
      have hsk := (structural_none_iff _ _).mp hs
      have hself : NoSelfEdge (topLevel stages) := fun s h => (hsk s h).1
      have hknown : Known (topLevel stages) := fun s h => (hsk s h).2
      rw [hd, hs] at hok
      simp only at hok
      cases ht : toposort stages with
      | ok out =>
        rw [ht] at hok
        have hac := (hok.mp rfl).2.2.2
        constructor
        · constructor
          · rintro ⟨e, he, _⟩; cases he
          · rintro ⟨_, _, _, h⟩; exact absurd hac h
        · constructor
          · rintro ⟨e, he, _⟩; cases he
          · intro h; exact absurd ⟨hnd, hself, hknown⟩ h
      | error stuck =>
        constructor
        · constructor
          · intro _
            refine ⟨hnd, hself, hknown, ?_⟩
            intro hac
            obtain ⟨c, hc⟩ := toposort_stuck_has_cycle _ _ ht hknown
            exact hac c hc
          · intro _; exact ⟨_, rfl, rfl⟩
        · constructor
          · rintro ⟨e, he, hc⟩
            simp only [Except.error.injEq] at he
            subst he
            cases hc
          · intro h; exact absurd ⟨hnd, hself, hknown⟩ h

/-- A cycle rules out every sound order of all stages — the independent reading "a topological
    order exists" agrees with `Acyclic` (for distinct refs). -/
theorem ordered_perm_implies_acyclic (g out : List Stage) (hnd : (g.map (·.ref)).Nodup)
    (hp : out.Perm g) (ho : Ordered out) : Acyclic g :=
  acyclic_congr (fun _ => hp.mem_iff) (acyclic_of_ordered (((hp.map _).nodup_iff).mpr hnd) ho)

-- non-vacuity: a valid diamond, and one graph for each way of being invalid, in detection order
example : validate diamond = .ok () := by decide
example : Valid (topLevel diamond) := (validate_ok_iff diamond).mp (by decide)
example : toposort diamond = .ok [⟨1, [], true⟩, ⟨2, [1], true⟩, ⟨3, [1], true⟩, ⟨4, [2, 3], true⟩] := by decide
example : validate [⟨1, [], true⟩, ⟨1, [], true⟩] = .error (.duplicateRef 1) := by decide
example : validate [⟨1, [1], true⟩] = .error (.selfEdge 1) := by decide
example : validate [⟨1, [7], true⟩, ⟨2, [2], true⟩] = .error (.unknownRef 1 [7]) := by decide
example : validate [⟨1, [2], true⟩, ⟨2, [3], true⟩, ⟨3, [1], true⟩, ⟨4, [], true⟩]
    = .error (.cycle [⟨1, [2], true⟩, ⟨2, [3], true⟩, ⟨3, [1], true⟩]) := by decide
-- the hypotheses of `toposort_complete` / `toposort_stuck_has_cycle` are satisfiable
example : Known (topLevel diamond) ∧ Acyclic (topLevel diamond) :=
  let h := (validate_ok_iff diamond).mp (by decide); ⟨h.2.2.1, h.2.2.2⟩
example : toposort [⟨1, [2], true⟩, ⟨2, [1], true⟩, ⟨3, [], true⟩] = .error [⟨1, [2], true⟩, ⟨2, [1], true⟩] := by decide
-- without "known refs" a failing sort need not mean a cycle (why the hypothesis is there)
example : toposort [⟨1, [9], true⟩] = .error [⟨1, [9], true⟩] := by decide
-- synthetic stages (`top = false`) are ignored by both functions
example : validate [⟨1, [], true⟩, ⟨1, [1, 9], false⟩] = .ok () := by decide
-- a cycle in the sense of `Reach`
example : Reach [⟨1, [2], true⟩, ⟨2, [1], true⟩] 1 1 :=
  .cons ⟨⟨1, [2], true⟩, by simp, rfl, by simp⟩ (.single ⟨⟨2, [1], true⟩, by simp, rfl, by simp⟩)

end Graph

/-! ## Part 2 — the expression evaluator is total -/
section Expression
open Stab.Expr

/-- **eval_total (every depth budget).** With the guards of the fixed code, `_eval_node` returns a value or raises
    `ExpressionError` — for every expression tree, every context, every identity oracle and every
    depth budget.  (`IsTotal r` = `r` is `.ok v` or `.error .expression`.) -/
theorem eval_total_any_depth_budget (env : Env) (fuel : Nat) (e : Expr) : IsTotal (evalF .fixed env fuel e) :=
  evalF_total_of_guards Guards.fixed_all env fuel e

/-- **eval_total** for the model of record `Expr.eval : Expr → Env → Except Err Value`
    (= `_eval_node` of the fixed code entered from `evaluate_expression` on an ordinary stack) -/
theorem eval_total (e : Expr) (env : Env) : IsTotal (Expr.eval e env) :=
  eval_total_any_depth_budget env _ e

/-- … and for `evaluate_expression` as a whole, whatever the prologue / `ast.parse` did with the text -/
theorem evaluate_total (env : Env) (stack : Nat) (p : Parsed) : IsTotal (evaluate .fixed env stack p) := by
  cases p with
  | blank => exact .expr
  | fastTrue => exact .ok _
  | fastFalse => exact .ok _
  | syntaxError => exact .expr
  | parseRaised cls => exact .expr
  | tree e => exact eval_total_any_depth_budget env _ e

/-- **F2, counterexample.** Of the code as found (`Guards.current`) totality is FALSE.  Witnesses:
    `-x` with `x` missing (TypeError), `d[[1]]` (TypeError: unhashable), 1000 nested `not` on a
    stack with 1000 frames left (RecursionError), and `ast.parse` itself raising (deep nesting,
    lone surrogates). -/
theorem eval_total_current_counterexample :
    evaluate .current emptyEnv 1000 (.tree (.unary .usub (.name "x"))) = .error .typeError
    ∧ evaluate .current dEnv 1000 (.tree (.subscript (.name "d") (.list [.const (.int 1)]))) = .error .typeError
    ∧ evaluate .current emptyEnv 1000 (.tree (notChain 1000 (.name "x"))) = .error .recursionError
    ∧ evaluate .current emptyEnv 1000 (.parseRaised .memoryError) = .error .memoryError
    ∧ ¬ (∀ env stack p, IsTotal (evaluate .current env stack p)) := by
  refine ⟨rfl, rfl, ?_, rfl, ?_⟩
  · have := notChain_recursion .current rfl emptyEnv (.name "x") 1000 1000 (Nat.le_refl _)
    simpa only [evaluate, Guards.current, Bool.false_eq_true, if_false] using this
  · intro h
    exact not_total_of_other (x := .typeError) (by decide)
      (h emptyEnv 1000 (.tree (.unary .usub (.name "x"))))

/-- Each of the four guards added by F2.diff is needed: dropping any one of them from the fixed
    evaluator re-admits a foreign exception class. -/
theorem each_new_guard_is_necessary :
    ¬ (∀ env stack p, IsTotal (evaluate { Guards.fixed with unary := false } env stack p))
    ∧ ¬ (∀ env stack p, IsTotal (evaluate { Guards.fixed with subscript := false } env stack p))
    ∧ ¬ (∀ env stack p, IsTotal (evaluate { Guards.fixed with depth := false } env stack p))
    ∧ ¬ (∀ env stack p, IsTotal (evaluate { Guards.fixed with parse := false } env stack p)) := by
  refine ⟨?_, ?_, ?_, ?_⟩
  · intro h
    exact not_total_of_other (x := .typeError) (by decide)
      (h emptyEnv 1000 (.tree (.unary .usub (.const (.str "s")))))
  · intro h
    exact not_total_of_other (x := .typeError) (by decide)
      (h dEnv 1000 (.tree (.subscript (.name "d") (.list []))))
  · intro h
    have := h emptyEnv 3 (.tree (notChain 3 (.name "x")))
    exact not_total_of_other (x := .recursionError) (by decide) this
  · intro h
    exact not_total_of_other (x := .recursionError) (by decide)
      (h emptyEnv 1000 (.parseRaised .recursionError))

/-- The two guards the code already has are needed too (a regression there is the same defect). -/
theorem existing_guards_are_necessary :
    ¬ (∀ env stack p, IsTotal (evaluate { Guards.fixed with compare := false } env stack p))
    ∧ ¬ (∀ env stack p, IsTotal (evaluate { Guards.fixed with index := false } env stack p)) := by
  refine ⟨?_, ?_⟩
  · intro h
    exact not_total_of_other (x := .typeError) (by decide)
      (h emptyEnv 1000 (.tree (.compare (.const (.int 1)) [(.lt, .const (.str "a"))])))
  · intro h
    exact not_total_of_other (x := .indexError) (by decide)
      (h emptyEnv 1000 (.tree (.subscript (.list []) (.const (.int 0)))))

/-- **The patch only changes the class of the exception**: at equal depth budget the fixed
    evaluator returns the same value whenever the current one returns one, and `ExpressionError`
    whenever the current one raises anything at all. -/
theorem patch_only_changes_exception_class (env : Env) (fuel : Nat) (e : Expr) :
    evalF .fixed env fuel e = relax (evalF .current env fuel e) :=
  evalF_fixed_eq_relax_current env fuel e

/-- **The depth bound never changes a value**: what evaluates to `v` within some depth budget
    evaluates to `v` within every larger one (so `_MAX_DEPTH` only decides *whether* a deep
    expression is refused, and an expression the current code evaluates within `_MAX_DEPTH + 1`
    levels gets the same value from the fixed code). -/
theorem depth_budget_monotone (g : Guards) (env : Env) (e : Expr) (v : Value) (n m : Nat) (h : n ≤ m) :
    evalF g env n e = .ok v → evalF g env m e = .ok v :=
  evalF_ok_mono g env e v n m h

theorem fixed_agrees_with_current_on_values (env : Env) (stack : Nat) (e : Expr) (v : Value)
    (hs : maxDepth + 1 ≤ stack) (h : evalF .current env (maxDepth + 1) e = .ok v) :
    evaluate .current env stack (.tree e) = .ok v ∧ evaluate .fixed env stack (.tree e) = .ok v := by
  constructor
  · exact evalF_ok_mono _ env e v _ _ hs h
  · have hm : min (maxDepth + 1) stack = maxDepth + 1 := Nat.min_eq_left hs
    simp only [evaluate, Guards.fixed, if_true, hm]
    have := patch_only_changes_exception_class env (maxDepth + 1) e
    simp only [Guards.fixed] at this
    rw [this, h]; rfl

/-- unsupported node classes are always refused with the evaluator's own error -/
theorem unsupported_raises_expression_error (g : Guards) (env : Env) (fuel : Nat) (k : String) :
    evalF g env (fuel + 1) (.unsupported k) = .error .expression := rfl

-- non-vacuity: real conditions evaluate to values (`x.a[0] < 3 and not y`, chained compare, `in`,
-- `True == 1`, tuple keys, ternary) and the refused ones are refused with ExpressionError
example : Expr.eval (.boolOp .and [.compare (.subscript (.attr (.name "x") "a") (.const (.int 0))) [(.lt, .const (.int 3))],
    .unary .not (.name "y")]) ctx1 = .ok (.bool true) := by rfl
example : Expr.eval (.compare (.const (.int 1)) [(.lt, .name "n"), (.le, .const (.int 5))]) ctx1 = .ok (.bool true) := by rfl
example : Expr.eval (.compare (.const (.str "bc")) [(.in_, .name "s")]) ctx1 = .ok (.bool true) := by rfl
example : Expr.eval (.compare (.const (.bool true)) [(.eq, .const (.int 1))]) ctx1 = .ok (.bool true) := by rfl
example : Expr.eval (.subscript (.attr (.name "x") "a") (.unary .usub (.const (.int 1)))) ctx1 = .ok (.int 2) := by rfl
example : Expr.eval (.ifExp (.name "missing") (.unary .usub (.const (.str "s"))) (.tuple [.name "n"])) ctx1
    = .ok (.tuple [.int 5]) := by rfl
example : Expr.eval (.unary .usub (.name "s")) ctx1 = .error .expression := by rfl
example : Expr.eval (.compare (.name "n") [(.lt, .name "s")]) ctx1 = .error .expression := by rfl
example : Expr.eval (.subscript (.name "x") (.list [])) ctx1 = .error .expression := by rfl
example : Expr.eval (.unsupported "Call") ctx1 = .error .expression := by rfl
-- the depth boundary, exactly: 200 nested `not` (201 levels) evaluate, 201 are refused
set_option maxRecDepth 20000 in
example : evalF .fixed ctx1 (maxDepth + 1) (notChain 200 (.name "n")) = .ok (.bool true) := by rfl
set_option maxRecDepth 20000 in
example : evalF .fixed ctx1 (maxDepth + 1) (notChain 201 (.name "n")) = .error .expression := by rfl

end Expression

/-! ## Part 3 — purity and shape of the source -/
section Shape
open Stab.Expr
open Stab.Gen

/-- **eval_pure (shape).** `_eval_node` dispatches on exactly the node classes the model has
    constructors for, in the same order, and refuses everything else. -/
theorem dispatch_eq_model :
    ExprShape.dispatch = supportedKinds ∧ ExprShape.endsInRaise = true := by decide

/-- every model expression is one of the dispatched classes or the catch-all … -/
theorem kind_supported_or_unsupported (e : Expr) :
    e.kind ∈ supportedKinds ∨ ∃ k, e = .unsupported k := by
  cases e <;> simp [Expr.kind, supportedKinds]

/-- … and every dispatched class has a constructor (so the two lists are in bijection) -/
theorem every_supported_kind_has_a_constructor :
    ∀ k ∈ supportedKinds, ∃ e : Expr, e.kind = k ∧ ∀ k', e ≠ .unsupported k' := by
  intro k hk
  simp only [supportedKinds, List.mem_cons, List.not_mem_nil, or_false] at hk
  rcases hk with rfl | rfl | rfl | rfl | rfl | rfl | rfl | rfl | rfl | rfl
  · exact ⟨.const .none, rfl, by intro _ h; cases h⟩
  · exact ⟨.name "", rfl, by intro _ h; cases h⟩
  · exact ⟨.attr (.name "") "", rfl, by intro _ h; cases h⟩
  · exact ⟨.subscript (.name "") (.name ""), rfl, by intro _ h; cases h⟩
  · exact ⟨.compare (.name "") [], rfl, by intro _ h; cases h⟩
  · exact ⟨.boolOp .and [], rfl, by intro _ h; cases h⟩
  · exact ⟨.unary .not (.name ""), rfl, by intro _ h; cases h⟩
  · exact ⟨.ifExp (.name "") (.name "") (.name ""), rfl, by intro _ h; cases h⟩
  · exact ⟨.list [], rfl, by intro _ h; cases h⟩
  · exact ⟨.tuple [], rfl, by intro _ h; cases h⟩

/-- the operator tables of the source are the model's operators -/
theorem operator_tables_eq_model :
    ExprShape.cmpOps = CmpOp.all.map CmpOp.astName
    ∧ ExprShape.boolOps = [BoolOp.and, .or].map BoolOp.astName
    ∧ ExprShape.unaryOps = [UnOp.not, .usub].map UnOp.astName := by decide

/-- the unary operators outside `_SAFE_UNARY_OPS` are refused (after the operand was evaluated) -/
theorem unary_supported_iff (g : Guards) (op : UnOp) (v : Value) :
    ExprShape.unaryOps.contains op.astName = false → unaryValue g op v = .error .expression := by
  cases op <;> simp [ExprShape.unaryOps, UnOp.astName, unaryValue]

/-- **eval_pure (source).** `expressions.py` imports only `ast`, `operator` and typing helpers; no
    dangerous identifier occurs anywhere in the file (which also excludes aliasing such as
    `e = eval`); the only methods called are `dict.get`, `str.strip`, `str.lower`, `ast.parse`; and
    neither function stores to an attribute or a subscript, deletes, or declares a global. -/
theorem source_has_no_dangerous_construct :
    ExprShape.imports.all (fun m => ["__future__", "ast", "operator", "collections.abc", "typing"].contains m) = true
    ∧ ExprShape.namesUsed.all (fun n => !dangerousNames.contains n) = true
    ∧ ExprShape.calls.all (fun n => !dangerousNames.contains n) = true
    ∧ ExprShape.methods.all (fun m => ["get", "strip", "lower", "parse"].contains m) = true
    ∧ ExprShape.nonLocalStores = [] := by decide

/-- **The proof obligation tied to F2.**  The `try/except` clauses and the depth check found in the
    source are exactly the guards of the model of record.  (On a tree without F2.diff the left-hand
    side evaluates to `Guards.current` and this theorem no longer compiles.) -/
theorem source_guards_are_fixed :
    Guards.ofSource ExprShape.guards ExprShape.maxDepth ExprShape.depthCheck ExprShape.recursivePassDepth
      = Guards.fixed
    ∧ ExprShape.maxDepth = some maxDepth := by decide

/-- no except clause in the source other than the ones the model knows (a new one would be new behaviour) -/
theorem source_has_no_unmodelled_except_clause :
    ExprShape.guards.all (fun c =>
      [("Subscript", "TypeError", "raise ExpressionError"), ("Subscript", "IndexError", "return None"),
       ("Compare", "TypeError", "raise ExpressionError"), ("UnaryOp", "TypeError", "raise ExpressionError"),
       ("parse", "SyntaxError", "raise ExpressionError"), ("parse", "ValueError", "raise ExpressionError"),
       ("parse", "RecursionError", "raise ExpressionError"), ("parse", "MemoryError", "raise ExpressionError"),
       ("eval", "RecursionError", "raise ExpressionError")].contains c) = true := by decide

end Shape

/-! ## Part 4 — the two callers -/
section Callers
open Stab.Expr
open Stab.Gen

/-- **Translator fact.** Both callers import `ExpressionError` from `stabilize.expressions`, wrap
    every call of `evaluate_expression` in a `try`, catch exactly `ExpressionError`, and the handler
    skips the branch (`_apply_split_logic`) resp. returns `False` = do not skip (`_should_skip`). -/
theorem callers_catch_exactly_expression_error :
    ExprShape.callers =
      [("handlers/complete_stage/split_logic.py", "_apply_split_logic", true, true,
          [(["ExpressionError"], "call skipped.append")]),
       ("handlers/start_stage/conditions.py", "_should_skip", true, true,
          [(["ExpressionError"], "return False")])] := by rfl

/-- **Callers never crash.** Whatever `evaluate_expression` does within `eval_total`'s outcome
    classes, the OR-split activates or skips the branch and `_should_skip` answers — no exception. -/
theorem callers_never_crash (r : Except Err Value) (h : IsTotal r) :
    (∃ o, splitBranch r = .ok o) ∧ (∃ b, shouldSkip r = .ok b) := by
  rcases h with ⟨v, rfl⟩ | rfl
  · exact ⟨⟨_, rfl⟩, ⟨_, rfl⟩⟩
  · exact ⟨⟨_, rfl⟩, ⟨_, rfl⟩⟩

/-- instantiated: for every condition text and context, with the fixed evaluator -/
theorem malformed_condition_cannot_crash_a_stage (env : Env) (stack : Nat) (p : Parsed) :
    (∃ o, splitBranch (evaluate .fixed env stack p) = .ok o)
    ∧ (∃ b, shouldSkip (evaluate .fixed env stack p) = .ok b) :=
  callers_never_crash _ (evaluate_total env stack p)

/-- a malformed condition skips the branch / does not skip the stage -/
theorem malformed_condition_outcome :
    splitBranch (.error .expression) = .ok .skip ∧ shouldSkip (.error .expression) = .ok false := ⟨rfl, rfl⟩

/-- and why totality matters: any other class goes straight through both callers (this is how F2
    crashes the CompleteStage / StartStage handler) -/
theorem foreign_exception_propagates (x : Err) (hx : x ≠ .expression) :
    splitBranch (.error x) = .error x ∧ shouldSkip (.error x) = .error x := by
  cases x <;> first | exact absurd rfl hx | exact ⟨rfl, rfl⟩

example : splitBranch (evaluate .current emptyEnv 1000 (.tree (.unary .usub (.name "x")))) = .error .typeError := by
  rfl

end Callers

end Stab.Props.C20
