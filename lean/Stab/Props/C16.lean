/- Property theorems for C16 — to be filled in. -/
namespace Stab.Props.C16
end Stab.Props.C16
