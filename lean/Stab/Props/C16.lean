/-
  C16 — a stage sees exactly its ancestors' outputs, the nearest ancestor winning.

  Models: `Stab.Merge` (`get_merged_ancestor_outputs`, `_plan_stage`, `reducers.py`, the context part
  of `reset_stage_for_retry`).  `R a` = requisites of stage `a`, `O a` = its outputs.  Every theorem
  about the ancestor merge is stated for EVERY linear extension `order` of the ancestor sub-DAG
  (`LinExt R s order`), which is all the code's Kahn pass over Python sets guarantees.
  Dicts are compared extensionally (`get?` of every key), as Python compares dicts.
-/
import Stab.Lemmas.Reducers
import Stab.Lemmas.MergeGraph

namespace Stab.Props.C16
open Stab.Merge

/-! ## ancestors and linear extensions: the executable functions of the driver are the Prop-level notions -/

/-- a graph the driver accepts is topologically numbered -/
theorem graph_topo (g : Graph) (h : g.topoNumbered = true) : Topo g.R := by
  intro a b hb
  unfold Graph.R at hb
  cases hf : g.find? (·.ref == a) with
  | none => simp [hf] at hb
  | some n =>
    simp only [hf] at hb
    have hn : n ∈ g := List.mem_of_find?_eq_some hf
    have hr : (n.ref == a) = true := by simpa using List.find?_some hf
    simp only [Graph.topoNumbered, List.all_eq_true, decide_eq_true_eq] at h
    have := h n hn b hb
    simp only [beq_iff_eq] at hr
    omega

/-- `ancestors` (the BFS of the code, as a downward scan) = transitive requisites -/
theorem ancestors_are_transitive_requisites (R : Nat → List Nat) (hT : Topo R) (s a : Nat) :
    a ∈ ancestors R s ↔ Anc R s a := mem_ancestors R hT s a

/-- a linear extension always exists, so "for every linear extension" below is never vacuous -/
theorem linear_extension_exists (R : Nat → List Nat) (hT : Topo R) (s : Nat) : ∃ order, LinExt R s order :=
  ⟨ancestors R s, ancestors_linExt R hT s⟩

/-- the decidable test used by the driver -/
theorem isLinExt_sound_complete (R : Nat → List Nat) (s : Nat) (order : List Nat) :
    isLinExt R s order = true ↔ LinExt R s order := isLinExt_iff R s order

/-- the driver's enumeration is the complete set of linear extensions (admissible-value check) -/
theorem linExts_complete (R : Nat → List Nat) (hT : Topo R) (s : Nat) (order : List Nat) :
    order ∈ linExts R s ↔ LinExt R s order := mem_linExts R hT s order

/-! ## the ancestor merge (`get_merged_ancestor_outputs`) -/

/-- A key is visible in the merged ancestor outputs iff some transitive ancestor output it. -/
theorem merged_keys_eq_ancestor_keys (R : Nat → List Nat) (O : Nat → Outs) (s : Nat) (order : List Nat)
    (h : LinExt R s order) (k : String) :
    (get? (mergeOrder O order) k).isSome ↔ ∃ a, Anc R s a ∧ ∃ v, (k, v) ∈ O a := by
  rw [mergeOrder_get?]
  constructor
  · intro hs
    have hne : vals O order k ≠ [] := by
      intro hnil
      rw [hnil] at hs
      simp [foldVals] at hs
    obtain ⟨v, hv⟩ := List.exists_mem_of_ne_nil _ hne
    obtain ⟨a, ha, hm⟩ := (mem_vals O order k v).mp hv
    exact ⟨a, (h.mem a).mp ha, v, hm⟩
  · rintro ⟨a, ha, v, hm⟩
    have hv : v ∈ vals O order k := (mem_vals O order k v).mpr ⟨a, (h.mem a).mpr ha, hm⟩
    cases hf : foldVals none (vals O order k) with
    | some w => simp
    | none =>
      have := ((foldVals_eq_none none _).mp hf).2
      rw [this] at hv
      cases hv

/-- The merged value of a key is never invented: it is one ancestor's value, or (list case) built from
    ancestors' list values only — in particular nothing a non-ancestor output can appear. -/
theorem merged_value_from_ancestors (R : Nat → List Nat) (O : Nat → Outs) (s : Nat) (order : List Nat)
    (h : LinExt R s order) (k : String) (w : Value) (hw : get? (mergeOrder O order) k = some w) :
    (∃ a, Anc R s a ∧ (k, w) ∈ O a)
    ∨ (∃ l, w = .list l ∧ ∀ x ∈ l, ∃ a, Anc R s a ∧ ∃ l', (k, .list l') ∈ O a ∧ x ∈ l') := by
  rw [mergeOrder_get?] at hw
  -- generalise over the prefix already folded
  have key : ∀ (vs : List Value) (o : Option Value),
      (∀ v ∈ vs, ∃ a, Anc R s a ∧ (k, v) ∈ O a) →
      (∀ u, o = some u → (∃ a, Anc R s a ∧ (k, u) ∈ O a)
          ∨ (∃ l, u = .list l ∧ ∀ x ∈ l, ∃ a, Anc R s a ∧ ∃ l', (k, .list l') ∈ O a ∧ x ∈ l')) →
      ∀ u, foldVals o vs = some u → (∃ a, Anc R s a ∧ (k, u) ∈ O a)
          ∨ (∃ l, u = .list l ∧ ∀ x ∈ l, ∃ a, Anc R s a ∧ ∃ l', (k, .list l') ∈ O a ∧ x ∈ l') := by
    intro vs
    induction vs with
    | nil => intro o _ ho u hu; exact ho u (by simpa [foldVals] using hu)
    | cons v vs ih =>
      intro o hvs ho u hu
      have hstep : foldVals o (v :: vs) = foldVals (some (combine o v)) vs := by simp [foldVals]
      rw [hstep] at hu
      refine ih (some (combine o v)) (fun v' hv' => hvs v' (List.mem_cons_of_mem _ hv')) ?_ u hu
      intro u' hu'
      injection hu' with hu'
      obtain ⟨a, haA, ham⟩ := hvs v List.mem_cons_self
      -- either plain overwrite, or list onto list
      cases o with
      | none =>
        have : combine none v = v := by cases v <;> rfl
        rw [this] at hu'; subst hu'
        exact Or.inl ⟨a, haA, ham⟩
      | some old =>
        cases old with
        | atom x =>
          have : combine (some (.atom x)) v = v := by cases v <;> rfl
          rw [this] at hu'; subst hu'
          exact Or.inl ⟨a, haA, ham⟩
        | dict d =>
          have : combine (some (.dict d)) v = v := by cases v <;> rfl
          rw [this] at hu'; subst hu'
          exact Or.inl ⟨a, haA, ham⟩
        | list e =>
          cases v with
          | atom x =>
            have : combine (some (.list e)) (.atom x) = .atom x := rfl
            rw [this] at hu'; subst hu'
            exact Or.inl ⟨a, haA, ham⟩
          | dict d =>
            have : combine (some (.list e)) (.dict d) = .dict d := rfl
            rw [this] at hu'; subst hu'
            exact Or.inl ⟨a, haA, ham⟩
          | list n =>
            have : combine (some (.list e)) (.list n) = .list (appendNew e n) := rfl
            rw [this] at hu'; subst hu'
            refine Or.inr ⟨_, rfl, ?_⟩
            intro x hx
            obtain ⟨t, ht, _, ht3, _⟩ := appendNew_spec e n
            rw [ht] at hx
            rcases List.mem_append.mp hx with hx | hx
            · rcases ho (.list e) rfl with ⟨a', ha', hm'⟩ | ⟨l, hl, hall⟩
              · exact ⟨a', ha', e, hm', hx⟩
              · injection hl with hl
                subst hl
                exact hall x hx
            · exact ⟨a, haA, n, ham, (ht3 x hx).2⟩
  refine key (vals O order k) none ?_ ?_ w hw
  · intro v hv
    obtain ⟨a, ha, hm⟩ := (mem_vals O order k v).mp hv
    exact ⟨a, (h.mem a).mp ha, hm⟩
  · intro u hu; cases hu

/-- **Nearest on the path wins.**  `p` is an ancestor that outputs the non-list value `v` for `k`, and
    every other ancestor that outputs `k` is itself an ancestor of `p` (so `p` is the latest producer on
    every dependency path).  Then the merged value is `v` — whatever linear extension the code used. -/
theorem nearest_on_path_wins (R : Nat → List Nat) (O : Nat → Outs) (s : Nat) (order : List Nat)
    (h : LinExt R s order) (k : String) (p : Nat) (v : Value)
    (hp : Anc R s p) (hdict : ((O p).map (·.1)).Nodup) (hv : get? (O p) k = some v)
    (hscalar : v.isList = false)
    (hnear : ∀ q, Anc R s q → q ≠ p → get? (O q) k ≠ none → Anc R p q) :
    get? (mergeOrder O order) k = some v := by
  have hpo : p ∈ order := (h.mem p).mpr hp
  obtain ⟨l1, l2, e⟩ := List.append_of_mem hpo
  have hnd := h.nodup
  rw [e] at hnd
  -- nothing after `p` produces `k`
  have hl2 : vals O l2 k = [] := by
    apply vals_eq_nil_of_no_producer
    intro q hq
    by_cases hqk : get? (O q) k = none
    · exact hqk
    · exfalso
      have hqo : q ∈ order := by rw [e]; simp [hq]
      have hqp : q ≠ p := by
        rintro rfl
        have := (List.nodup_append.mp hnd).2.1
        exact (List.nodup_cons.mp this).1 hq
      have hanc := hnear q ((h.mem q).mp hqo) hqp hqk
      have hq1 : q ∈ l1 := h.anc_before hanc l1 l2 e
      exact absurd rfl ((List.nodup_append.mp hnd).2.2 q hq1 q (List.mem_cons_of_mem _ hq))
  have hvals : vals O order k = vals O l1 k ++ [v] := by
    rw [e, vals_append]
    have : vals O (p :: l2) k = valsOf (O p) k ++ vals O l2 k := by simp [vals]
    rw [this, hl2, valsOf_of_nodup _ _ hdict, hv]
    simp
  rw [mergeOrder_get?, hvals, foldVals_snoc, combine_nonlist _ _ hscalar]

/-- The producer whose value is visible is never shadowed: if all producers of `k` hold non-list values,
    the merged value belongs to a producer `p` such that no other producer is a descendant of `p` inside the
    ancestor set.  (This is the set of admissible values when the producers are NOT path-ordered.) -/
theorem winner_is_maximal (R : Nat → List Nat) (O : Nat → Outs) (s : Nat) (order : List Nat)
    (h : LinExt R s order) (k : String) (w : Value)
    (hdict : ∀ a, ((O a).map (·.1)).Nodup)
    (hscalar : ∀ a v, Anc R s a → get? (O a) k = some v → v.isList = false)
    (hw : get? (mergeOrder O order) k = some w) :
    ∃ p, Anc R s p ∧ get? (O p) k = some w ∧ ∀ q, Anc R s q → get? (O q) k ≠ none → ¬ Anc R q p := by
  -- the last producer in `order`
  have key : ∀ (l2 l1 : List Nat), order = l1 ++ l2 → vals O l2 k = [] → foldVals none (vals O l1 k) = some w →
      ∃ p, Anc R s p ∧ get? (O p) k = some w ∧ ∀ q, Anc R s q → get? (O q) k ≠ none → ¬ Anc R q p := by
    intro l2 l1
    revert l2
    induction l1 using snoc_induction with
    | hnil => intro _ _ _ hf; simp [vals, foldVals] at hf
    | hsnoc l1 p ih =>
      intro l2 e hl2 hf
      have hpo : p ∈ order := by rw [e]; simp
      by_cases hpk : get? (O p) k = none
      · -- `p` does not produce `k`: move it to the suffix
        have hvp : valsOf (O p) k = [] := by rw [valsOf_of_nodup _ _ (hdict p), hpk]; rfl
        refine ih (p :: l2) (by simp [e]) ?_ ?_
        · have : vals O (p :: l2) k = valsOf (O p) k ++ vals O l2 k := by simp [vals]
          rw [this, hvp, hl2]; rfl
        · rw [vals_append] at hf
          have : vals O [p] k = valsOf (O p) k := by simp [vals]
          rw [this, hvp, List.append_nil] at hf
          exact hf
      · obtain ⟨v, hv⟩ := Option.ne_none_iff_exists'.mp hpk
        have hvp : valsOf (O p) k = [v] := by rw [valsOf_of_nodup _ _ (hdict p), hv]; rfl
        rw [vals_append] at hf
        have : vals O [p] k = valsOf (O p) k := by simp [vals]
        rw [this, hvp, foldVals_snoc,
          combine_nonlist _ _ (hscalar p v ((h.mem p).mp hpo) hv)] at hf
        injection hf with hf
        subst hf
        refine ⟨p, (h.mem p).mp hpo, hv, ?_⟩
        intro q hq hqk hqp
        -- `p` precedes `q` in every decomposition around `q`; so `q` lies in `l2`, which has no producer
        have hqo : q ∈ order := (h.mem q).mpr hq
        have hnd := h.nodup
        have hq2 : q ∈ l2 := by
          rw [e] at hqo
          rcases List.mem_append.mp hqo with hq1 | hq2
          · exfalso
            rcases List.mem_append.mp hq1 with hq1 | hq1
            · obtain ⟨x1, x2, e5⟩ := List.append_of_mem hq1
              have e6 : order = x1 ++ q :: (x2 ++ p :: l2) := by simp [e, e5]
              have hpx : p ∈ x1 := h.anc_before hqp x1 _ e6
              rw [e6] at hnd
              exact absurd rfl ((List.nodup_append.mp hnd).2.2 p hpx p (by simp))
            · simp at hq1
              subst hq1
              have e6 : order = l1 ++ q :: l2 := by simp [e]
              have hpx : q ∈ l1 := h.anc_before hqp l1 l2 e6
              rw [e6] at hnd
              exact absurd rfl ((List.nodup_append.mp hnd).2.2 q hpx q (by simp))
          · exact hq2
        have : ∀ v', v' ∉ vals O l2 k := by rw [hl2]; simp
        obtain ⟨vq, hvq⟩ := Option.ne_none_iff_exists'.mp hqk
        exact this vq ((mem_vals O l2 k vq).mpr ⟨q, hq2, get?_mem _ _ _ hvq⟩)
  rw [mergeOrder_get?] at hw
  exact key [] order (by simp) (by simp [vals]) hw

/-- **Lists accumulate without duplicates.**  If every ancestor value of `k` is a list (and there is one),
    the merged value is `first ++ t` where `first` is the (unchanged) list of the first producer in the order,
    `t` has no repetition and nothing already in `first`, and the elements are exactly the elements of the
    ancestors' lists.  (A duplicate inside `first` itself is kept: the code never deduplicates the first list.) -/
theorem lists_accumulate_without_duplicates (R : Nat → List Nat) (O : Nat → Outs) (s : Nat)
    (order : List Nat) (h : LinExt R s order) (k : String)
    (hlist : ∀ a v, Anc R s a → (k, v) ∈ O a → v.isList = true)
    (hsome : ∃ a, Anc R s a ∧ ∃ v, (k, v) ∈ O a) :
    ∃ first t, (∃ a, Anc R s a ∧ (k, .list first) ∈ O a)
      ∧ get? (mergeOrder O order) k = some (.list (first ++ t))
      ∧ t.Nodup ∧ (∀ y ∈ t, y ∉ first)
      ∧ ∀ y, y ∈ first ++ t ↔ ∃ a, Anc R s a ∧ ∃ l, (k, .list l) ∈ O a ∧ y ∈ l := by
  have hall : ∀ v ∈ vals O order k, v.isList = true := by
    intro v hv
    obtain ⟨a, ha, hm⟩ := (mem_vals O order k v).mp hv
    exact hlist a v ((h.mem a).mp ha) hm
  obtain ⟨ls, hls⟩ := all_lists _ hall
  obtain ⟨a0, ha0, v0, hm0⟩ := hsome
  have hv0 : v0 ∈ vals O order k := (mem_vals O order k v0).mpr ⟨a0, (h.mem a0).mpr ha0, hm0⟩
  cases ls with
  | nil => rw [hls] at hv0; cases hv0
  | cons first rest =>
    obtain ⟨t, ht1, ht2, ht3, ht4⟩ := accum_spec first rest
    have hmemls : ∀ l, l ∈ first :: rest ↔ ∃ a, Anc R s a ∧ (k, Value.list l) ∈ O a := by
      intro l
      have : l ∈ first :: rest ↔ Value.list l ∈ vals O order k := by
        rw [hls, List.mem_map]
        constructor
        · intro hl; exact ⟨l, hl, rfl⟩
        · rintro ⟨l', hl', he⟩; injection he with he; subst he; exact hl'
      rw [this, mem_vals]
      constructor
      · rintro ⟨a, ha, hm⟩; exact ⟨a, (h.mem a).mp ha, hm⟩
      · rintro ⟨a, ha, hm⟩; exact ⟨a, (h.mem a).mpr ha, hm⟩
    refine ⟨first, t, (hmemls first).mp List.mem_cons_self, ?_, ht2, fun y hy => (ht3 y hy).1, ?_⟩
    · rw [mergeOrder_get?, hls]
      have : foldVals none ((first :: rest).map Value.list) = foldVals (some (.list first)) (rest.map Value.list) := by
        simp [foldVals, combine]
      rw [this, foldVals_lists, ht1]
    · intro y
      constructor
      · intro hy
        rcases List.mem_append.mp hy with hy | hy
        · obtain ⟨a, ha, hm⟩ := (hmemls first).mp List.mem_cons_self
          exact ⟨a, ha, first, hm, hy⟩
        · obtain ⟨_, l, hl, hyl⟩ := ht3 y hy
          obtain ⟨a, ha, hm⟩ := (hmemls l).mp (List.mem_cons_of_mem _ hl)
          exact ⟨a, ha, l, hm, hyl⟩
      · rintro ⟨a, ha, l, hm, hyl⟩
        have hl : l ∈ first :: rest := (hmemls l).mpr ⟨a, ha, hm⟩
        rcases List.mem_cons.mp hl with rfl | hl
        · exact List.mem_append_left _ hyl
        · rcases ht4 l hl y hyl with h1 | h1
          · exact List.mem_append_left _ h1
          · exact List.mem_append_right _ h1

/-! ## `_plan_stage`: ancestors, then reducers, then the stage's own context -/

/-- **Own context wins**: a key of the stage's own context that no reducer controls keeps its own value,
    unless both the own value and the merged ancestor value are lists (then they accumulate, see
    `own_list_accumulates`). -/
theorem own_context_wins (rk : List String) (anc own : Outs) (k : String) (v : Value)
    (hown : (keys own).Nodup) (hv : get? own k = some v) (hk : k ∉ rk)
    (hnl : v.isList = false ∨ ∀ e, get? anc k ≠ some (.list e)) :
    get? (planCore rk anc own) k = some v := by
  rw [planCore_get?_of_nodup _ _ _ _ hown, hv]
  simp only [hk, if_false]
  rcases hnl with h | h
  · rw [combine_nonlist _ _ h]
  · cases hanc : get? anc k with
    | none => cases v <;> rfl
    | some w =>
      cases w with
      | list e => exact absurd hanc (h e)
      | atom a => cases v <;> rfl
      | dict d => cases v <;> rfl

/-- list onto list: the ancestors' list first, then the own items not yet present -/
theorem own_list_accumulates (rk : List String) (anc own : Outs) (k : String) (e n : List Atom)
    (hown : (keys own).Nodup) (hv : get? own k = some (.list n)) (hk : k ∉ rk)
    (hanc : get? anc k = some (.list e)) :
    get? (planCore rk anc own) k = some (.list (appendNew e n)) := by
  rw [planCore_get?_of_nodup _ _ _ _ hown, hv, hanc]
  simp [hk, combine]

/-- a key named by a reducer is never overridden by the stage's own context -/
theorem reducer_keys_not_overridden (rk : List String) (anc own : Outs) (k : String) (hk : k ∈ rk) :
    get? (planCore rk anc own) k = get? anc k := by
  rw [planCore_get?]; simp [hk]

/-- a key the stage does not hold itself is taken from the ancestors -/
theorem plan_passes_ancestor_value (rk : List String) (anc own : Outs) (k : String)
    (hv : get? own k = none) : get? (planCore rk anc own) k = get? anc k := by
  rw [planCore_get?]
  have : valsOf own k = [] := by
    simp only [valsOf, List.map_eq_nil_iff, List.filter_eq_nil_iff]
    intro e he hek
    simp only [decide_eq_true_eq] at hek
    exact ((get?_eq_none_iff own k).mp hv) e.2 (by rw [← hek]; exact he)
  simp [this, foldVals]

/-- **No foreign output.**  Whatever the planned context holds for `k` comes from the stage's own context
    or from a transitive ancestor: reducers only see the DIRECT upstream branches (`bo ⊆ R s`), which are
    ancestors, and the ancestor merge only sees ancestors.  A stage that is not an ancestor contributes
    nothing. -/
theorem no_foreign_output (R : Nat → List Nat) (O : Nat → Outs) (s : Nat) (order bo : List Nat)
    (h : LinExt R s order) (hbo : ∀ b ∈ bo, b ∈ R s)
    (reducers : Dict String) (own res : Outs)
    (hres : planMerge reducers (mergeOrder O order) (bo.map O) own = .ok res)
    (k : String) (hk : (get? res k).isSome = true) :
    (get? own k).isSome = true ∨ ∃ a, Anc R s a ∧ ∃ v, (k, v) ∈ O a := by
  have hancKey : ∀ k, (get? (mergeOrder O order) k).isSome = true → ∃ a, Anc R s a ∧ ∃ v, (k, v) ∈ O a :=
    fun k hk => (merged_keys_eq_ancestor_keys R O s order h k).mp hk
  -- keys of planCore come from anc' or own
  have hcore : ∀ rk (anc' : Outs), (get? (planCore rk anc' own) k).isSome = true →
      (get? own k).isSome = true ∨ (get? anc' k).isSome = true := by
    intro rk anc' hc
    cases ho : get? own k with
    | some v => exact Or.inl rfl
    | none =>
      rw [plan_passes_ancestor_value rk anc' own k ho] at hc
      exact Or.inr hc
  unfold planMerge at hres
  by_cases hre : reducers.isEmpty = true
  · simp only [hre, if_true, Except.ok.injEq] at hres
    subst hres
    rcases hcore _ _ hk with h1 | h1
    · exact Or.inl h1
    · exact Or.inr (hancKey k h1)
  · simp only [hre, Bool.false_eq_true, if_false] at hres
    cases hred : applyReducers reducers (bo.map O) with
    | error x => simp [hred] at hres
    | ok red =>
      simp only [hred, Except.ok.injEq] at hres
      subst hres
      rcases hcore _ _ hk with h1 | h1
      · exact Or.inl h1
      · right
        rcases update_keys _ _ k h1 with h2 | h2
        · exact hancKey k h2
        · rcases applyFrom_keys (bo.map O) reducers [] red hred k h2 with h3 | h3
          · simp [get?] at h3
          · obtain ⟨v, hv⟩ := List.exists_mem_of_ne_nil _ h3
            simp only [branchValues, List.mem_filterMap, List.mem_map] at hv
            obtain ⟨o, ⟨b, hb, rfl⟩, hov⟩ := hv
            exact ⟨b, Anc.direct (hbo b hb), v, get?_mem _ _ _ hov⟩

/-! ## reducers and the order of the branches -/

/-- `sum` does not depend on the order of the branches (including whether it raises `TypeError`) -/
theorem sum_permutation_invariant {vs vs' : List Value} (h : vs.Perm vs') : rSum vs = rSum vs' := rSum_perm h
/-- `max` (ints or strs, `None` skipped; `ValueError`/`TypeError` outcomes included) -/
theorem max_permutation_invariant {vs vs' : List Value} (h : vs.Perm vs') : rMax vs = rMax vs' := rMax_perm h
/-- `min` -/
theorem min_permutation_invariant {vs vs' : List Value} (h : vs.Perm vs') : rMin vs = rMin vs' := rMin_perm h

/-- `collect`/`append`: the same MULTISET of items whatever the order of the branches -/
theorem collect_multiset_permutation_invariant {vs vs' : List Value} (h : vs.Perm vs') :
    (rCollect vs = .error .unsupported ∧ rCollect vs' = .error .unsupported)
    ∨ ∃ l l', rCollect vs = .ok (.list l) ∧ rCollect vs' = .ok (.list l') ∧ l.Perm l' := by
  unfold rCollect
  rw [← h.any_eq]
  by_cases hd : vs.any Value.isDict = true
  · left; simp [hd]
  · right
    exact ⟨vs.flatMap collectItems, vs'.flatMap collectItems, by simp [hd], by simp [hd], h.flatMap_right _⟩

/-- `extend`: the same multiset of items -/
theorem extend_multiset_permutation_invariant {vs vs' : List Value} (h : vs.Perm vs') :
    (rExtend vs = .error .unsupported ∧ rExtend vs' = .error .unsupported)
    ∨ ∃ l l', rExtend vs = .ok (.list l) ∧ rExtend vs' = .ok (.list l') ∧ l.Perm l' := by
  unfold rExtend
  rw [← h.any_eq]
  by_cases hd : vs.any Value.isDict = true
  · left; simp [hd]
  · right
    exact ⟨vs.flatMap extendItems, vs'.flatMap extendItems, by simp [hd], by simp [hd], h.flatMap_right _⟩

/-- `merge` of dicts with pairwise disjoint keys: the same dict (as a mapping) for every order -/
theorem merge_disjoint_permutation_invariant {vs vs' : List Value} (h : vs.Perm vs')
    (hd : vs.Pairwise (fun v w => ∀ k, mergeContrib k v = none ∨ mergeContrib k w = none)) (k : String) :
    get? (rMergeDict vs) k = get? (rMergeDict vs') k := by
  rw [rMergeDict_get?, rMergeDict_get?]
  exact mergeLookup_perm k h (hd.imp (fun hvw => hvw k)) none

/-- **Fan-in with order-insensitive reducers**: `apply_output_reducers` with reducers drawn from
    `sum`/`max`/`min` gives the same result (or the same error) for every order of the branches. -/
theorem symmetric_reducers_branch_order_irrelevant (rs : Dict String)
    (hs : ∀ e ∈ rs, e.2 ∈ symmetricNames) {bs bs' : List Outs} (h : bs.Perm bs') :
    applyReducers rs bs = applyReducers rs bs' :=
  applyFrom_perm rs hs h []

/-- … and so does the planned context -/
theorem plan_branch_order_irrelevant (rs : Dict String) (hs : ∀ e ∈ rs, e.2 ∈ symmetricNames)
    (anc own : Outs) {bs bs' : List Outs} (h : bs.Perm bs') :
    planMerge rs anc bs own = planMerge rs anc bs' own := by
  unfold planMerge
  rw [symmetric_reducers_branch_order_irrelevant rs hs h]

/-- the remaining reducers DO depend on the branch order: two-element witnesses -/
theorem first_order_dependent : ∃ vs vs', vs.Perm vs' ∧ rFirst vs ≠ rFirst vs' :=
  ⟨[.atom (.int 1), .atom (.int 2)], [.atom (.int 2), .atom (.int 1)], List.Perm.swap _ _ _, by simp [rFirst]⟩
theorem last_order_dependent : ∃ vs vs', vs.Perm vs' ∧ rLast vs ≠ rLast vs' :=
  ⟨[.atom (.int 1), .atom (.int 2)], [.atom (.int 2), .atom (.int 1)], List.Perm.swap _ _ _, by simp [rLast]⟩
theorem collect_as_list_order_dependent : ∃ vs vs', vs.Perm vs' ∧ rCollect vs ≠ rCollect vs' :=
  ⟨[.atom (.int 1), .atom (.int 2)], [.atom (.int 2), .atom (.int 1)], List.Perm.swap _ _ _,
    by simp [rCollect, collectItems, Value.isDict]⟩
theorem extend_as_list_order_dependent : ∃ vs vs', vs.Perm vs' ∧ rExtend vs ≠ rExtend vs' :=
  ⟨[.list [.int 1], .list [.int 2]], [.list [.int 2], .list [.int 1]], List.Perm.swap _ _ _,
    by simp [rExtend, extendItems, Value.isDict]⟩
theorem merge_overlapping_order_dependent :
    ∃ vs vs', vs.Perm vs' ∧ get? (rMergeDict vs) "a" ≠ get? (rMergeDict vs') "a" :=
  ⟨[.dict [("a", .int 1)], .dict [("a", .int 2)]], [.dict [("a", .int 2)], .dict [("a", .int 1)]],
    List.Perm.swap _ _ _, by decide⟩

/-! ## jump loops: what a re-armed stage sees (F17) -/

/-- "the value … as produced in the current loop iteration": in every iteration the stage's task is handed
    the merge of the ancestors' CURRENT outputs (`iters`, reducers applied) with the stage's ORIGINAL own
    context `own` -/
def CurrentIteration (var : Variant) : Prop :=
  ∀ (rk : List String) (own : Outs) (iters : List Outs),
    (keys own).Nodup → (∀ anc ∈ iters, (keys anc).Nodup) →
    ∀ k, (loopSeen var rk { ctx := own } iters).map (fun c => get? c k)
        = iters.map (fun anc => get? (planCore rk anc own) k)

/-- **F17 (the code before the repair).**  `_plan_stage` stores the merged ancestor outputs as the stage's
    own context and the re-arm keeps it, so on the next iteration "own context wins": with the ancestor
    producing `k = 1, 2, 3` and `l = [1], [2], [3]`, the stage sees `k = 1, 1, 1` and
    `l = [1], [2,1], [3,2,1]`. -/
theorem legacy_planned_context_counterexample : ¬ CurrentIteration .legacy := by
  intro h
  have := h [] [] [[("k", .atom (.int 1))], [("k", .atom (.int 2))], [("k", .atom (.int 3))]]
    (by decide) (by decide) "k"
  revert this
  decide

theorem legacy_list_growth_witness :
    (loopSeen .legacy [] { ctx := [] }
      [[("l", .list [.int 1])], [("l", .list [.int 2])], [("l", .list [.int 3])]]).map (fun c => get? c "l")
    = [some (.list [.int 1]), some (.list [.int 2, .int 1]), some (.list [.int 3, .int 2, .int 1])] := by
  decide

/-- the first iteration (no jump yet) is fine in both variants -/
theorem first_iteration_is_current (var : Variant) (rk : List String) (own anc : Outs) (rest : List Outs) :
    (loopSeen var rk { ctx := own } (anc :: rest)).head? = some (planCore rk anc own) := by
  cases var <;> simp [loopSeen, planCtx]

/-- **With the repair (`_hydrated_keys` / `_hydrated_own_lists` recorded by the planner, dropped / restored
    by `reset_stage_for_retry`) every iteration sees the current values.** -/
theorem planned_context_is_current_iteration : CurrentIteration .fixed := by
  intro rk own iters hown hanc k
  exact loopSeen_fixed rk own hown iters hanc k { ctx := own } ⟨rfl, rfl, hown, fun _ _ => rfl⟩

/-! ## non-vacuity -/

/-- a diamond `0 → {1, 2} → 3`: both interleavings of the unrelated branches are linear extensions -/
example : LinExt (fun a => if a = 3 then [1, 2] else if a = 1 ∨ a = 2 then [0] else []) 3 [0, 1, 2]
    ∧ LinExt (fun a => if a = 3 then [1, 2] else if a = 1 ∨ a = 2 then [0] else []) 3 [0, 2, 1] :=
  ⟨(isLinExt_iff _ _ _).mp (by decide), (isLinExt_iff _ _ _).mp (by decide)⟩

/-- …and they disagree on a key both branches write, while a path-ordered key is the same -/
example :
    let O : Nat → Outs := fun a =>
      if a = 0 then [("p", .atom (.int 0)), ("u", .atom (.int 0))]
      else if a = 1 then [("p", .atom (.int 1)), ("u", .atom (.int 1))]
      else if a = 2 then [("u", .atom (.int 2))] else []
    get? (mergeOrder O [0, 1, 2]) "u" ≠ get? (mergeOrder O [0, 2, 1]) "u"
    ∧ get? (mergeOrder O [0, 1, 2]) "p" = get? (mergeOrder O [0, 2, 1]) "p" := by
  decide

end Stab.Props.C16
